package main

import (
	"encoding/json"
	"flag"
	"fmt"
	"os"
	"runtime/debug"
	"strings"
	"time"

	"go.lsp.dev/protocol"

	"github.com/juev/hledger-lsp/internal/server"
	"github.com/juev/hledger-lsp/internal/verifx/core"
	_ "github.com/juev/hledger-lsp/internal/verifx/props"
	_ "github.com/juev/hledger-lsp/internal/verifx/vatomic"
	"github.com/juev/hledger-lsp/internal/verifx/wire"
)

// panicInCodeUnderTest returns the function of the code under test in which the
// panic was raised: the first frame below the runtime's panic frames, if it
// belongs to the repository proper (not to the overlaid harness packages).
func panicInCodeUnderTest(stack string) string {
	lines := strings.Split(stack, "\n")
	seenPanic := false
	for _, l := range lines {
		if strings.HasPrefix(l, "panic(") {
			seenPanic = true
			continue
		}
		if !seenPanic || strings.HasPrefix(l, "\t") || strings.HasPrefix(l, "runtime.") || strings.HasPrefix(l, "runtime/") {
			continue
		}
		// the lock shims raise the deadlock panic on behalf of the code that called them
		if strings.Contains(l, "/verifx/vsync.") || strings.Contains(l, "/verifx/vsched.") {
			continue
		}
		if strings.HasPrefix(l, "github.com/juev/hledger-lsp/") && !strings.Contains(l, "/verifx/") && !strings.HasPrefix(l, "github.com/juev/hledger-lsp/cmd/verifworker") {
			if i := strings.LastIndex(l, "("); i > 0 {
				l = l[:i]
			}
			return strings.TrimPrefix(l, "github.com/juev/hledger-lsp/")
		}
		return ""
	}
	return ""
}

func firstLineOf(s string) string {
	if i := strings.Index(s, "\n"); i >= 0 {
		return s[:i]
	}
	return s
}

func main() {
	prop := flag.String("prop", "", "property id")
	tier := flag.String("tier", "quick", "quick|thorough")
	shard := flag.Int("shard", 0, "")
	nshards := flag.Int("nshards", 1, "")
	seed := flag.Int64("seed", 0, "")
	scratch := flag.String("scratch", "", "scratch dir")
	out := flag.String("out", "", "result file")
	replay := flag.String("replay", "", "replay file")
	budget := flag.Duration("budget", 60*time.Second, "time budget")
	flag.Parse()

	// The dispatcher copied from cmd/hledger-lsp prints debug lines through the
	// os.Stderr variable; runtime panics and race reports go to fd 2 directly.
	if devnull, err := os.OpenFile(os.DevNull, os.O_WRONLY, 0); err == nil {
		os.Stderr = devnull
	}
	os.Unsetenv("LEDGER_FILE")
	os.Unsetenv("HLEDGER_JOURNAL")

	wire.NewDispatcher = func(srv *server.Server) protocol.Server { return newServerDispatcher(srv) }

	f, ok := core.Registry[*prop]
	if !ok {
		fmt.Fprintf(os.Stdout, "unknown property %q\n", *prop)
		os.Exit(2)
	}
	if err := os.MkdirAll(*scratch, 0o755); err != nil {
		fmt.Fprintf(os.Stdout, "scratch: %v\n", err)
		os.Exit(2)
	}
	c := core.NewCtx(*prop, *tier, *shard, *nshards, *seed, *scratch, *budget)
	if *replay != "" {
		b, err := os.ReadFile(*replay)
		if err != nil {
			fmt.Fprintf(os.Stdout, "replay: %v\n", err)
			os.Exit(2)
		}
		var v struct {
			Case json.RawMessage `json:"case"`
		}
		if err := json.Unmarshal(b, &v); err != nil || v.Case == nil {
			fmt.Fprintf(os.Stdout, "replay: bad file\n")
			os.Exit(2)
		}
		c.Replay = v.Case
	}
	write := func() {
		res := c.Finish()
		b, _ := json.Marshal(res)
		if *out != "" {
			_ = os.WriteFile(*out, b, 0o644)
		}
	}
	c.OnAbort = write
	func() {
		defer func() {
			if p := recover(); p != nil {
				stack := string(debug.Stack())
				if fn := panicInCodeUnderTest(stack); fn != "" {
					// a crash of the code under test that no check-specific recover
					// caught: a violation (no request may crash), not a harness error
					c.Violate("panic in the code under test|"+fn+"|"+firstLineOf(fmt.Sprint(p)), "no crash",
						fmt.Sprintf("%v\n%s", p, stack), map[string]any{"panic": fmt.Sprint(p), "function": fn})
					c.Cap("check aborted by a panic in the code under test")
					return
				}
				c.Res.InfraError = fmt.Sprintf("worker panic: %v\n%s", p, stack)
			}
		}()
		f(c)
	}()
	res := c.Finish()
	b, _ := json.Marshal(res)
	if *out == "" {
		os.Stdout.Write(b)
		os.Stdout.Write([]byte("\n"))
	} else if err := os.WriteFile(*out, b, 0o644); err != nil {
		fmt.Fprintf(os.Stdout, "write: %v\n", err)
		os.Exit(2)
	}
}
