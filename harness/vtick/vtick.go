// Package vtick counts loop iterations of repository code (tick build flavour).
package vtick

var N int64

func T() { N++ }

func Reset() { N = 0 }
