// Package core is the worker-side framework shared by all property checks:
// sharding, counters, samples, violations with signatures, deadlines.
package core

import (
	"crypto/sha1"
	"encoding/hex"
	"encoding/json"
	"fmt"
	"os"
	"sort"
	"sync/atomic"
	"time"
)

// Violation is one failing case reduced to a signature.
type Violation struct {
	Sig    string `json:"sig"`    // clause|minimal cause|observation class
	Clause string `json:"clause"` // which clause of the property failed
	Detail string `json:"detail"` // human readable: expected vs observed
	Case   any    `json:"case"`   // replayable case (input / op list / schedule)
	Count  int64  `json:"count"`  // how many explored cases reduced to this signature
}

// Result is what a worker writes for its shard.
type Result struct {
	Property      string            `json:"property"`
	Evaluations   int64             `json:"evaluations"`
	Nontrivial    int64             `json:"distinct_nontrivial"`
	States        int64             `json:"states"`
	Transitions   int64             `json:"transitions"`
	Traces        int64             `json:"traces_validated_against_impl"`
	Samples       []any             `json:"samples"`
	Violations    []*Violation      `json:"violations"`
	Exhaustive    bool              `json:"exhaustive"`
	Caps          []string          `json:"caps"`
	Outcomes      map[string]int64  `json:"outcomes"` // distinct observed outcomes per scenario (vacuity check)
	Counters      map[string]int64  `json:"counters"`
	Notes         []string          `json:"notes"`
	Bounds        map[string]string `json:"bounds"`
	InfraError    string            `json:"infra_error,omitempty"`
	violationsMap map[string]*Violation
}

// Ctx is handed to a property check.
type Ctx struct {
	Prop     string
	Tier     string // quick | thorough
	Shard    int
	NShards  int
	Seed     int64
	Scratch  string // private directory (on /dev/shm when available)
	Deadline time.Time
	Replay   json.RawMessage // non-nil: replay this single case and report
	Res      *Result
	caseIdx  int64
	curFile  *os.File

	// watchdog (C06): a case running longer than the limit is recorded as a
	// violation and the worker stops
	OnAbort    func()
	watchStart int64 // unix nanos, 0 = idle
	watchCase  any
	watchOn    bool
}

// Watch arms the per-case watchdog; Unwatch disarms it. The deadline is
// generous (HangLimit); it is a hang detector, not a performance oracle.
var HangLimit = 30 * time.Second

func (c *Ctx) Watch(cas any) {
	c.watchCase = cas
	atomic.StoreInt64(&c.watchStart, time.Now().UnixNano())
	if !c.watchOn {
		c.watchOn = true
		go func() {
			for {
				time.Sleep(500 * time.Millisecond)
				st := atomic.LoadInt64(&c.watchStart)
				if st != 0 && time.Since(time.Unix(0, st)) > HangLimit {
					c.Violate("request does not return|"+fmt.Sprint(HangLimit), "every request returns", fmt.Sprintf("no return after %v", HangLimit), c.watchCase)
					c.Cap("worker stopped after a hang")
					if c.OnAbort != nil {
						c.OnAbort()
					}
					os.Exit(0)
				}
			}
		}()
	}
}

func (c *Ctx) Unwatch() { atomic.StoreInt64(&c.watchStart, 0) }

func NewCtx(prop, tier string, shard, nshards int, seed int64, scratch string, budget time.Duration) *Ctx {
	return &Ctx{
		Prop: prop, Tier: tier, Shard: shard, NShards: nshards, Seed: seed, Scratch: scratch,
		Deadline: time.Now().Add(budget),
		Res: &Result{Property: prop, Exhaustive: true, Outcomes: map[string]int64{}, Counters: map[string]int64{},
			Bounds: map[string]string{}, violationsMap: map[string]*Violation{}},
	}
}

func (c *Ctx) Thorough() bool { return c.Tier == "thorough" }

// Mine partitions an enumeration over the shards: the i-th call returns true
// on exactly one shard. (VERIF_SEED rotates the assignment; it never changes
// what is covered.)
func (c *Ctx) Mine() bool {
	i := c.caseIdx
	c.caseIdx++
	if c.NShards <= 1 {
		return true
	}
	return int((i+c.Seed)%int64(c.NShards)) == c.Shard
}

// MineKey partitions by an explicit index.
func (c *Ctx) MineKey(i int64) bool {
	if c.NShards <= 1 {
		return true
	}
	return int((i+c.Seed)%int64(c.NShards)) == c.Shard
}

// Expired reports whether the tier's time budget is used up; the check then
// stops, marks the run non-exhaustive and still exits 0.
func (c *Ctx) Expired() bool {
	if time.Now().After(c.Deadline) {
		c.Cap("time budget of tier reached")
		return true
	}
	return false
}

func (c *Ctx) Cap(what string) {
	c.Res.Exhaustive = false
	for _, x := range c.Res.Caps {
		if x == what {
			return
		}
	}
	c.Res.Caps = append(c.Res.Caps, what)
}

func (c *Ctx) Note(format string, a ...any) {
	if len(c.Res.Notes) < 50 {
		c.Res.Notes = append(c.Res.Notes, fmt.Sprintf(format, a...))
	}
}

func (c *Ctx) Count(name string, d int64) { c.Res.Counters[name] += d }

func (c *Ctx) Bound(name, value string) { c.Res.Bounds[name] = value }

// Sample keeps up to 4 cases per shard (the host keeps a few overall).
func (c *Ctx) Sample(s any) {
	if len(c.Res.Samples) < 4 {
		c.Res.Samples = append(c.Res.Samples, s)
	}
}

// Announce records the case about to run, so that a crash or hang of the
// worker can be attributed by the parent.
func (c *Ctx) Announce(cas any) {
	if c.curFile == nil {
		f, err := os.OpenFile(fmt.Sprintf("%s/current_%d.json", c.Scratch, c.Shard), os.O_CREATE|os.O_RDWR|os.O_TRUNC, 0o644)
		if err != nil {
			return
		}
		c.curFile = f
	}
	b, _ := json.Marshal(cas)
	b = append(b, '\n')
	_ = c.curFile.Truncate(0)
	_, _ = c.curFile.WriteAt(b, 0)
}

// Violate records a violation under a signature.
func (c *Ctx) Violate(sig, clause, detail string, cas any) {
	if v, ok := c.Res.violationsMap[sig]; ok {
		v.Count++
		return
	}
	if len(detail) > 1500 {
		detail = detail[:1500] + "…"
	}
	v := &Violation{Sig: sig, Clause: clause, Detail: detail, Case: cas, Count: 1}
	c.Res.violationsMap[sig] = v
	c.Res.Violations = append(c.Res.Violations, v)
}

func (c *Ctx) NViolations() int { return len(c.Res.Violations) }

func (c *Ctx) Finish() *Result {
	sort.Slice(c.Res.Violations, func(i, j int) bool { return c.Res.Violations[i].Sig < c.Res.Violations[j].Sig })
	return c.Res
}

// Hash returns a short hex hash.
func Hash(s string) string {
	h := sha1.Sum([]byte(s))
	return hex.EncodeToString(h[:8])
}

// Check is a registered property check.
type Check func(c *Ctx)

var Registry = map[string]Check{}

func Register(id string, f Check) { Registry[id] = f }

// JSON helper.
func J(v any) string {
	b, _ := json.Marshal(v)
	return string(b)
}
