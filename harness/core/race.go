package core

import (
	"sort"
	"strings"
)

const modPath = "github.com/juev/hledger-lsp"

// SplitRaceReports splits race detector output into single reports.
func SplitRaceReports(s string) []string {
	var out []string
	for _, p := range strings.Split(s, "==================") {
		if strings.Contains(p, "WARNING: DATA RACE") {
			out = append(out, strings.TrimSpace(p))
		}
	}
	return out
}

// RaceSignature is the sorted pair of innermost repository frames of the two
// conflicting accesses.
func RaceSignature(rep string) string {
	var frames []string
	for _, b := range strings.Split(rep, "\n\n") {
		lines := strings.Split(b, "\n")
		head := strings.TrimSpace(lines[0])
		if !(strings.HasPrefix(head, "Write at") || strings.HasPrefix(head, "Read at") ||
			strings.HasPrefix(head, "Previous write at") || strings.HasPrefix(head, "Previous read at") ||
			strings.HasPrefix(head, "WARNING: DATA RACE")) {
			continue
		}
		for _, l := range lines {
			l = strings.TrimSpace(l)
			if strings.HasPrefix(l, modPath+"/") && !strings.Contains(l, "/verifx/") && !strings.Contains(l, "/cmd/verifworker") {
				fn := l
				if i := strings.Index(fn, "("); i > 0 && !strings.HasPrefix(fn[i:], "(*") {
					fn = fn[:i]
				} else if j := strings.LastIndex(fn, "("); j > 0 {
					fn = fn[:j]
				}
				frames = append(frames, strings.TrimPrefix(fn, modPath+"/"))
				break
			}
		}
	}
	sort.Strings(frames)
	return strings.Join(frames, " <-> ")
}
