// Package explore is the stateless, preemption-bounded depth-first explorer
// over the scheduling points recorded by vsched (engine A).
package explore

import (
	"fmt"

	"github.com/juev/hledger-lsp/internal/verifx/vsched"
)

// Explorer enumerates every schedule of Run whose number of preemptions
// (switching away from a thread that could have continued) is <= Bound.
type Explorer struct {
	Bound int
	// Run executes the scenario once under the given choice prefix (default
	// choice 0 afterwards) and returns the trace plus an observation.
	Run func(prefix []int) (vsched.Result, any)
	// Check is the oracle, called once per owned execution.
	Check func(choices []int, r vsched.Result, obs any, preemptions int)
	// Shard / NShards partition level-2 subtrees; level 0 and 1 executions are
	// run by every shard (to discover the subtrees) and owned by shard 0.
	Shard, NShards int
	Stop           func() bool // time budget

	Executions  int64 // owned executions
	Replayed    int64 // executions run only to discover subtrees
	MaxPoints   int
	MaxThreads  int
	Preempted   int64 // owned executions with >= 1 preemption
	InfraError  string
	Stopped     bool
	subtreeIdx  int64
	Transitions int64
}

func Choices(r vsched.Result) []int {
	c := make([]int, len(r.Points))
	for i, p := range r.Points {
		c[i] = int(p.Choice)
	}
	return c
}

func Preemptions(r vsched.Result) int {
	n := 0
	for _, p := range r.Points {
		if p.RunEnabled && p.Choice > 0 {
			n++
		}
	}
	return n
}

func (e *Explorer) Explore() {
	e.explore(nil, 0, e.NShards <= 1 || e.Shard == 0)
}

func (e *Explorer) explore(prefix []int, level int, owned bool) {
	if e.InfraError != "" || e.Stopped {
		return
	}
	if e.Stop != nil && e.Stop() {
		e.Stopped = true
		return
	}
	r, obs := e.Run(prefix)
	if len(r.Points) < len(prefix) {
		e.InfraError = fmt.Sprintf("divergence: prefix of %d choices but only %d points", len(prefix), len(r.Points))
		return
	}
	for i := range prefix {
		if int(r.Points[i].Choice) != prefix[i] {
			e.InfraError = "divergence: recorded choice differs from prefix"
			return
		}
	}
	if len(r.Failure) >= 10 && r.Failure[:10] == "divergence" || r.Failure == "horizon" {
		e.InfraError = r.Failure
		return
	}
	choices := Choices(r)
	if owned {
		e.Executions++
		e.Transitions += int64(len(r.Points))
		pre := Preemptions(r)
		if pre > 0 {
			e.Preempted++
		}
		if len(r.Points) > e.MaxPoints {
			e.MaxPoints = len(r.Points)
		}
		if r.Threads > e.MaxThreads {
			e.MaxThreads = r.Threads
		}
		e.Check(choices, r, obs, pre)
	} else {
		e.Replayed++
	}
	cost := 0
	for i := 0; i < len(r.Points); i++ {
		p := r.Points[i]
		if i >= len(prefix) {
			for alt := 1; alt < int(p.NEnabled); alt++ {
				c := cost
				if p.RunEnabled {
					c++
				}
				if c > e.Bound {
					continue
				}
				np := make([]int, i+1)
				copy(np, choices[:i])
				np[i] = alt
				switch {
				case level == 0:
					// level-1 node: run by everybody, owned by shard 0
					e.explore(np, 1, e.NShards <= 1 || e.Shard == 0)
				case level == 1:
					idx := e.subtreeIdx
					e.subtreeIdx++
					if e.NShards <= 1 || int(idx%int64(e.NShards)) == e.Shard {
						e.explore(np, 2, true)
					}
				default:
					e.explore(np, level+1, true)
				}
			}
		}
		if p.RunEnabled && p.Choice > 0 {
			cost++
		}
	}
}
