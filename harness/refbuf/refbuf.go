// Package refbuf is the reference client buffer (DESIGN §4.1): the text a
// conforming LSP client holds, addressed in UTF-16 code units, with the
// clamping rules of the LSP specification (as implemented by
// vscode-languageserver-textdocument). It shares no code with the repository.
package refbuf

import (
	"fmt"
	"sort"
	"unicode/utf16"
)

type Pos struct {
	Line int `json:"line"`
	Char int `json:"character"`
}

func (p Pos) Less(q Pos) bool { return p.Line < q.Line || (p.Line == q.Line && p.Char < q.Char) }

type Range struct {
	Start Pos `json:"start"`
	End   Pos `json:"end"`
}

// Change is one content change; Ranged=false replaces the whole text.
type Change struct {
	Ranged bool   `json:"ranged"`
	Range  Range  `json:"range"`
	Text   string `json:"text"`
}

func (c Change) JSON() string {
	if !c.Ranged {
		return fmt.Sprintf(`{"text":%s}`, quote(c.Text))
	}
	return fmt.Sprintf(`{"range":{"start":{"line":%d,"character":%d},"end":{"line":%d,"character":%d}},"text":%s}`,
		c.Range.Start.Line, c.Range.Start.Char, c.Range.End.Line, c.Range.End.Char, quote(c.Text))
}

func quote(s string) string {
	// JSON string with \u escapes for everything non-ASCII (what any client may send)
	out := []byte{'"'}
	for _, u := range utf16.Encode([]rune(s)) {
		switch {
		case u == '"':
			out = append(out, '\\', '"')
		case u == '\\':
			out = append(out, '\\', '\\')
		case u == '\n':
			out = append(out, '\\', 'n')
		case u == '\r':
			out = append(out, '\\', 'r')
		case u == '\t':
			out = append(out, '\\', 't')
		case u < 0x20 || u > 0x7e:
			out = append(out, []byte(fmt.Sprintf("\\u%04x", u))...)
		default:
			out = append(out, byte(u))
		}
	}
	return string(append(out, '"'))
}

// Buffer is a document as UTF-16 code units.
type Buffer struct {
	U []uint16
}

func New(text string) *Buffer { return &Buffer{U: utf16.Encode([]rune(text))} }

func (b *Buffer) String() string { return string(utf16.Decode(b.U)) }

// lineStarts returns the offsets at which lines begin (line breaks: \n, \r\n, lone \r).
func (b *Buffer) lineStarts() []int {
	starts := []int{0}
	for i := 0; i < len(b.U); i++ {
		switch b.U[i] {
		case '\n':
			starts = append(starts, i+1)
		case '\r':
			if i+1 < len(b.U) && b.U[i+1] == '\n' {
				i++
			}
			starts = append(starts, i+1)
		}
	}
	return starts
}

func (b *Buffer) LineCount() int { return len(b.lineStarts()) }

// LineLen is the length of a line in code units excluding its terminator.
func (b *Buffer) LineLen(line int) int {
	starts := b.lineStarts()
	if line < 0 || line >= len(starts) {
		return 0
	}
	end := len(b.U)
	if line+1 < len(starts) {
		end = starts[line+1]
	}
	for end > starts[line] && (b.U[end-1] == '\n' || b.U[end-1] == '\r') {
		end--
	}
	return end - starts[line]
}

// LineText returns the text of a line without its terminator.
func (b *Buffer) LineText(line int) string {
	starts := b.lineStarts()
	if line < 0 || line >= len(starts) {
		return ""
	}
	return string(utf16.Decode(b.U[starts[line] : starts[line]+b.LineLen(line)]))
}

// Offset maps a position to a code-unit offset with the LSP clamping rules.
func (b *Buffer) Offset(p Pos) int {
	starts := b.lineStarts()
	if p.Line >= len(starts) {
		return len(b.U)
	}
	if p.Line < 0 {
		return 0
	}
	n := b.LineLen(p.Line)
	c := p.Char
	if c > n {
		c = n
	}
	if c < 0 {
		c = 0
	}
	return starts[p.Line] + c
}

// InsideSurrogatePair reports whether p names a position between the two units
// of a surrogate pair (no client produces such positions).
func (b *Buffer) InsideSurrogatePair(p Pos) bool {
	starts := b.lineStarts()
	if p.Line >= len(starts) || p.Char <= 0 || p.Char >= b.LineLen(p.Line) {
		return false
	}
	o := starts[p.Line] + p.Char
	return utf16.IsSurrogate(rune(b.U[o])) && b.U[o] >= 0xDC00 && b.U[o] <= 0xDFFF
}

// Apply applies one change.
func (b *Buffer) Apply(c Change) {
	if !c.Ranged {
		b.U = utf16.Encode([]rune(c.Text))
		return
	}
	s, e := b.Offset(c.Range.Start), b.Offset(c.Range.End)
	if s > e {
		s, e = e, s
	}
	nu := make([]uint16, 0, len(b.U)+len(c.Text))
	nu = append(nu, b.U[:s]...)
	nu = append(nu, utf16.Encode([]rune(c.Text))...)
	nu = append(nu, b.U[e:]...)
	b.U = nu
}

// PosAt maps a code-unit offset to a position.
func (b *Buffer) PosAt(off int) Pos {
	starts := b.lineStarts()
	line := sort.Search(len(starts), func(i int) bool { return starts[i] > off }) - 1
	if line < 0 {
		line = 0
	}
	return Pos{line, off - starts[line]}
}

// DiffChange returns the minimal single ranged change turning b into target.
func (b *Buffer) DiffChange(target string) Change {
	t := utf16.Encode([]rune(target))
	p := 0
	for p < len(b.U) && p < len(t) && b.U[p] == t[p] {
		p++
	}
	// never split a surrogate pair or a \r\n
	for p > 0 && (isLow(b.U, p) || isLow(t, p) || (p < len(b.U) && b.U[p] == '\n' && b.U[p-1] == '\r') || (p < len(t) && t[p] == '\n' && t[p-1] == '\r')) {
		p--
	}
	s := 0
	for s < len(b.U)-p && s < len(t)-p && b.U[len(b.U)-1-s] == t[len(t)-1-s] {
		s++
	}
	for s > 0 && (isLow(b.U, len(b.U)-s) || isLow(t, len(t)-s) ||
		(b.U[len(b.U)-s] == '\n' && len(b.U)-s > 0 && b.U[len(b.U)-s-1] == '\r') ||
		(t[len(t)-s] == '\n' && len(t)-s > 0 && t[len(t)-s-1] == '\r')) {
		s--
	}
	return Change{Ranged: true, Range: Range{b.PosAt(p), b.PosAt(len(b.U) - s)}, Text: string(utf16.Decode(t[p : len(t)-s]))}
}

func isLow(u []uint16, i int) bool {
	return i < len(u) && i >= 0 && u[i] >= 0xDC00 && u[i] <= 0xDFFF
}

// TextEdit as returned by the server (formatting, rename, completion).
type TextEdit struct {
	Range   Range  `json:"range"`
	NewText string `json:"newText"`
}

// CheckEdits verifies well-formedness of an edit list against the buffer:
// every range inside the document, start <= end, no position inside a
// surrogate pair, no two edits overlapping. Returns "" when well-formed.
func (b *Buffer) CheckEdits(edits []TextEdit) string {
	type span struct{ s, e, i int }
	var spans []span
	for i, e := range edits {
		for _, p := range []Pos{e.Range.Start, e.Range.End} {
			if p.Line < 0 || p.Line >= b.LineCount() {
				return fmt.Sprintf("edit %d: line %d outside the document (%d lines)", i, p.Line, b.LineCount())
			}
			if p.Char < 0 || p.Char > b.LineLen(p.Line) {
				return fmt.Sprintf("edit %d: character %d past the end of line %d (length %d)", i, p.Char, p.Line, b.LineLen(p.Line))
			}
			if b.InsideSurrogatePair(p) {
				return fmt.Sprintf("edit %d: position %d:%d splits a surrogate pair", i, p.Line, p.Char)
			}
		}
		if e.Range.End.Less(e.Range.Start) {
			return fmt.Sprintf("edit %d: start after end", i)
		}
		spans = append(spans, span{b.Offset(e.Range.Start), b.Offset(e.Range.End), i})
	}
	sort.SliceStable(spans, func(i, j int) bool { return spans[i].s < spans[j].s })
	for i := 1; i < len(spans); i++ {
		if spans[i].s < spans[i-1].e {
			return fmt.Sprintf("edits %d and %d overlap", spans[i-1].i, spans[i].i)
		}
	}
	return ""
}

// ApplyEdits applies a well-formed edit list (all ranges refer to the original text).
func (b *Buffer) ApplyEdits(edits []TextEdit) string {
	type span struct {
		s, e int
		t    string
		i    int
	}
	var spans []span
	for i, e := range edits {
		spans = append(spans, span{b.Offset(e.Range.Start), b.Offset(e.Range.End), e.NewText, i})
	}
	sort.SliceStable(spans, func(i, j int) bool { return spans[i].s < spans[j].s })
	var out []uint16
	last := 0
	for _, sp := range spans {
		if sp.s < last {
			continue
		}
		out = append(out, b.U[last:sp.s]...)
		out = append(out, utf16.Encode([]rune(sp.t))...)
		last = sp.e
	}
	out = append(out, b.U[last:]...)
	return string(utf16.Decode(out))
}
