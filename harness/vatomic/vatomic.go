// Package vatomic mirrors sync/atomic: every operation is a scheduling point of
// vsched and then performs the real atomic operation (so the race detector sees
// the production synchronisation).
package vatomic

import (
	"sync/atomic"
	"unsafe"

	"github.com/juev/hledger-lsp/internal/verifx/vsched"
)

func pt() { vsched.Point(vsched.KOther) }

func AddInt32(addr *int32, delta int32) int32 { pt(); return atomic.AddInt32(addr, delta) }
func LoadInt32(addr *int32) int32             { pt(); return atomic.LoadInt32(addr) }
func StoreInt32(addr *int32, val int32)       { pt(); atomic.StoreInt32(addr, val) }
func SwapInt32(addr *int32, new int32) int32  { pt(); return atomic.SwapInt32(addr, new) }
func CompareAndSwapInt32(addr *int32, old, new int32) bool {
	pt()
	return atomic.CompareAndSwapInt32(addr, old, new)
}

type Int32 struct{ v atomic.Int32 }

func (x *Int32) Load() int32                        { pt(); return x.v.Load() }
func (x *Int32) Store(val int32)                    { pt(); x.v.Store(val) }
func (x *Int32) Swap(new int32) int32               { pt(); return x.v.Swap(new) }
func (x *Int32) CompareAndSwap(old, new int32) bool { pt(); return x.v.CompareAndSwap(old, new) }
func (x *Int32) Add(delta int32) int32              { pt(); return x.v.Add(delta) }

func AddInt64(addr *int64, delta int64) int64 { pt(); return atomic.AddInt64(addr, delta) }
func LoadInt64(addr *int64) int64             { pt(); return atomic.LoadInt64(addr) }
func StoreInt64(addr *int64, val int64)       { pt(); atomic.StoreInt64(addr, val) }
func SwapInt64(addr *int64, new int64) int64  { pt(); return atomic.SwapInt64(addr, new) }
func CompareAndSwapInt64(addr *int64, old, new int64) bool {
	pt()
	return atomic.CompareAndSwapInt64(addr, old, new)
}

type Int64 struct{ v atomic.Int64 }

func (x *Int64) Load() int64                        { pt(); return x.v.Load() }
func (x *Int64) Store(val int64)                    { pt(); x.v.Store(val) }
func (x *Int64) Swap(new int64) int64               { pt(); return x.v.Swap(new) }
func (x *Int64) CompareAndSwap(old, new int64) bool { pt(); return x.v.CompareAndSwap(old, new) }
func (x *Int64) Add(delta int64) int64              { pt(); return x.v.Add(delta) }

func AddUint32(addr *uint32, delta uint32) uint32 { pt(); return atomic.AddUint32(addr, delta) }
func LoadUint32(addr *uint32) uint32              { pt(); return atomic.LoadUint32(addr) }
func StoreUint32(addr *uint32, val uint32)        { pt(); atomic.StoreUint32(addr, val) }
func SwapUint32(addr *uint32, new uint32) uint32  { pt(); return atomic.SwapUint32(addr, new) }
func CompareAndSwapUint32(addr *uint32, old, new uint32) bool {
	pt()
	return atomic.CompareAndSwapUint32(addr, old, new)
}

type Uint32 struct{ v atomic.Uint32 }

func (x *Uint32) Load() uint32                        { pt(); return x.v.Load() }
func (x *Uint32) Store(val uint32)                    { pt(); x.v.Store(val) }
func (x *Uint32) Swap(new uint32) uint32              { pt(); return x.v.Swap(new) }
func (x *Uint32) CompareAndSwap(old, new uint32) bool { pt(); return x.v.CompareAndSwap(old, new) }
func (x *Uint32) Add(delta uint32) uint32             { pt(); return x.v.Add(delta) }

func AddUint64(addr *uint64, delta uint64) uint64 { pt(); return atomic.AddUint64(addr, delta) }
func LoadUint64(addr *uint64) uint64              { pt(); return atomic.LoadUint64(addr) }
func StoreUint64(addr *uint64, val uint64)        { pt(); atomic.StoreUint64(addr, val) }
func SwapUint64(addr *uint64, new uint64) uint64  { pt(); return atomic.SwapUint64(addr, new) }
func CompareAndSwapUint64(addr *uint64, old, new uint64) bool {
	pt()
	return atomic.CompareAndSwapUint64(addr, old, new)
}

type Uint64 struct{ v atomic.Uint64 }

func (x *Uint64) Load() uint64                        { pt(); return x.v.Load() }
func (x *Uint64) Store(val uint64)                    { pt(); x.v.Store(val) }
func (x *Uint64) Swap(new uint64) uint64              { pt(); return x.v.Swap(new) }
func (x *Uint64) CompareAndSwap(old, new uint64) bool { pt(); return x.v.CompareAndSwap(old, new) }
func (x *Uint64) Add(delta uint64) uint64             { pt(); return x.v.Add(delta) }

func AddUintptr(addr *uintptr, delta uintptr) uintptr { pt(); return atomic.AddUintptr(addr, delta) }
func LoadUintptr(addr *uintptr) uintptr               { pt(); return atomic.LoadUintptr(addr) }
func StoreUintptr(addr *uintptr, val uintptr)         { pt(); atomic.StoreUintptr(addr, val) }
func SwapUintptr(addr *uintptr, new uintptr) uintptr  { pt(); return atomic.SwapUintptr(addr, new) }
func CompareAndSwapUintptr(addr *uintptr, old, new uintptr) bool {
	pt()
	return atomic.CompareAndSwapUintptr(addr, old, new)
}

type Uintptr struct{ v atomic.Uintptr }

func (x *Uintptr) Load() uintptr                        { pt(); return x.v.Load() }
func (x *Uintptr) Store(val uintptr)                    { pt(); x.v.Store(val) }
func (x *Uintptr) Swap(new uintptr) uintptr             { pt(); return x.v.Swap(new) }
func (x *Uintptr) CompareAndSwap(old, new uintptr) bool { pt(); return x.v.CompareAndSwap(old, new) }
func (x *Uintptr) Add(delta uintptr) uintptr            { pt(); return x.v.Add(delta) }

func LoadPointer(addr *unsafe.Pointer) unsafe.Pointer       { pt(); return atomic.LoadPointer(addr) }
func StorePointer(addr *unsafe.Pointer, val unsafe.Pointer) { pt(); atomic.StorePointer(addr, val) }
func SwapPointer(addr *unsafe.Pointer, new unsafe.Pointer) unsafe.Pointer {
	pt()
	return atomic.SwapPointer(addr, new)
}
func CompareAndSwapPointer(addr *unsafe.Pointer, old, new unsafe.Pointer) bool {
	pt()
	return atomic.CompareAndSwapPointer(addr, old, new)
}

type Bool struct{ v atomic.Bool }

func (x *Bool) Load() bool                        { pt(); return x.v.Load() }
func (x *Bool) Store(val bool)                    { pt(); x.v.Store(val) }
func (x *Bool) Swap(new bool) bool                { pt(); return x.v.Swap(new) }
func (x *Bool) CompareAndSwap(old, new bool) bool { pt(); return x.v.CompareAndSwap(old, new) }

type Value struct{ v atomic.Value }

func (x *Value) Load() any                        { pt(); return x.v.Load() }
func (x *Value) Store(val any)                    { pt(); x.v.Store(val) }
func (x *Value) Swap(new any) any                 { pt(); return x.v.Swap(new) }
func (x *Value) CompareAndSwap(old, new any) bool { pt(); return x.v.CompareAndSwap(old, new) }

type Pointer[T any] struct{ v atomic.Pointer[T] }

func (x *Pointer[T]) Load() *T                        { pt(); return x.v.Load() }
func (x *Pointer[T]) Store(val *T)                    { pt(); x.v.Store(val) }
func (x *Pointer[T]) Swap(new *T) *T                  { pt(); return x.v.Swap(new) }
func (x *Pointer[T]) CompareAndSwap(old, new *T) bool { pt(); return x.v.CompareAndSwap(old, new) }
