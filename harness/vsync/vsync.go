// Package vsync is a drop-in replacement for the parts of package sync that
// the repository uses (and the parts a plausible change would add). Every
// operation is a scheduling point of vsched; the real primitive is still used
// underneath so that the race detector sees the production synchronisation.
package vsync

import (
	"sync"

	"github.com/juev/hledger-lsp/internal/verifx/vorder"
	"github.com/juev/hledger-lsp/internal/verifx/vsched"
)

type (
	Locker = sync.Locker
	Pool   = sync.Pool
	Cond   = sync.Cond
)

func NewCond(l Locker) *Cond { return sync.NewCond(l) }

func OnceFunc(f func()) func() { return sync.OnceFunc(f) }

// Go replaces a `go` statement.
func Go(f func()) { vsched.Spawn(f) }

// Mutex

type Mutex struct {
	mu sync.Mutex
	ls vsched.LockState
}

func (m *Mutex) Lock() {
	vsched.Acquire(&m.ls, true)
	if vsched.Inline() {
		// one goroutine runs everything: a lock that is held will never be released
		if !m.mu.TryLock() {
			vsched.InlineDeadlock("Mutex.Lock")
		}
		return
	}
	m.mu.Lock()
}

func (m *Mutex) TryLock() bool {
	if !vsched.On() {
		return m.mu.TryLock()
	}
	if vsched.TryAcquire(&m.ls, true) {
		m.mu.Lock()
		return true
	}
	return false
}

func (m *Mutex) Unlock() {
	vsched.Release(&m.ls, true)
	m.mu.Unlock()
	vsched.AfterRelease(true)
}

// RWMutex

type RWMutex struct {
	mu sync.RWMutex
	ls vsched.LockState
}

func (m *RWMutex) Lock() {
	vsched.Acquire(&m.ls, true)
	if vsched.Inline() {
		if !m.mu.TryLock() {
			vsched.InlineDeadlock("RWMutex.Lock")
		}
		return
	}
	m.mu.Lock()
}

func (m *RWMutex) Unlock() {
	vsched.Release(&m.ls, true)
	m.mu.Unlock()
	vsched.AfterRelease(true)
}

func (m *RWMutex) RLock() {
	vsched.Acquire(&m.ls, false)
	if vsched.Inline() {
		if !m.mu.TryRLock() {
			vsched.InlineDeadlock("RWMutex.RLock")
		}
		return
	}
	m.mu.RLock()
}

func (m *RWMutex) RUnlock() {
	vsched.Release(&m.ls, false)
	m.mu.RUnlock()
	vsched.AfterRelease(false)
}

func (m *RWMutex) TryLock() bool {
	if !vsched.On() {
		return m.mu.TryLock()
	}
	if vsched.TryAcquire(&m.ls, true) {
		m.mu.Lock()
		return true
	}
	return false
}

func (m *RWMutex) TryRLock() bool {
	if !vsched.On() {
		return m.mu.TryRLock()
	}
	if vsched.TryAcquire(&m.ls, false) {
		m.mu.RLock()
		return true
	}
	return false
}

type rlocker RWMutex

func (r *rlocker) Lock()   { (*RWMutex)(r).RLock() }
func (r *rlocker) Unlock() { (*RWMutex)(r).RUnlock() }

func (m *RWMutex) RLocker() Locker { return (*rlocker)(m) }

// Once

type Once struct {
	m    Mutex
	done bool
}

func (o *Once) Do(f func()) {
	o.m.Lock()
	defer o.m.Unlock()
	if !o.done {
		defer func() { o.done = true }()
		f()
	}
}

// WaitGroup

type WaitGroup struct {
	wg sync.WaitGroup
	ls vsched.LockState
}

func (w *WaitGroup) Add(d int) {
	vsched.WGAdd(&w.ls, d)
	w.wg.Add(d)
}

func (w *WaitGroup) Done() { w.Add(-1) }

func (w *WaitGroup) Wait() {
	vsched.WGWait(&w.ls)
	w.wg.Wait()
}

// Map

type Map struct {
	m sync.Map
}

func (m *Map) Load(key any) (any, bool) {
	vsched.Point(vsched.KMapLoad)
	return m.m.Load(key)
}

func (m *Map) Store(key, value any) {
	vsched.Point(vsched.KMapStore)
	m.m.Store(key, value)
}

func (m *Map) LoadOrStore(key, value any) (any, bool) {
	vsched.Point(vsched.KMapStore)
	return m.m.LoadOrStore(key, value)
}

func (m *Map) LoadAndDelete(key any) (any, bool) {
	vsched.Point(vsched.KMapDelete)
	return m.m.LoadAndDelete(key)
}

func (m *Map) Delete(key any) {
	vsched.Point(vsched.KMapDelete)
	m.m.Delete(key)
}

func (m *Map) Swap(key, value any) (any, bool) {
	vsched.Point(vsched.KMapStore)
	return m.m.Swap(key, value)
}

func (m *Map) CompareAndSwap(key, old, new any) bool {
	vsched.Point(vsched.KMapStore)
	return m.m.CompareAndSwap(key, old, new)
}

func (m *Map) CompareAndDelete(key, old any) bool {
	vsched.Point(vsched.KMapDelete)
	return m.m.CompareAndDelete(key, old)
}

func (m *Map) Clear() {
	vsched.Point(vsched.KMapDelete)
	m.m.Clear()
}

// Range visits the entries in an order chosen by vorder when an order
// exploration is active (sync.Map.Range order is unspecified), otherwise in the
// order of the real map.
func (m *Map) Range(f func(key, value any) bool) {
	vsched.Point(vsched.KMapRange)
	// The shim owns the (unspecified) visiting order: canonically sorted keys
	// unless an order exploration chooses a permutation.
	var keys []any
	m.m.Range(func(k, _ any) bool {
		keys = append(keys, k)
		return true
	})
	for _, i := range vorder.PermAny(keys) {
		v, ok := m.m.Load(keys[i])
		if !ok {
			continue
		}
		if !f(keys[i], v) {
			return
		}
	}
}
