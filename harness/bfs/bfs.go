// Package bfs is the explicit-state breadth-first search over operation
// histories (engine B). A state is identified by the shortest operation list
// reaching it; a successor is built as fresh object + replay + one operation.
package bfs

// Stats of one search.
type Stats struct {
	States      int64
	Transitions int64
	MaxDepth    int
	Exhausted   bool // frontier emptied (depth was not the limiting factor)
	StateCapHit bool
}

// Search explores all histories over nops operations up to maxDepth with state
// de-duplication. apply builds a fresh instance, replays path (the last
// element is the new operation), runs the oracle and returns the canonical
// state key; ok=false means the operation is not applicable in that state.
func Search(nops, maxDepth, maxStates int, initKey string, apply func(path []int) (key string, ok bool), stop func() bool) Stats {
	st := Stats{States: 1}
	seen := map[string]bool{initKey: true}
	frontier := [][]int{{}}
	depth := 0
	for len(frontier) > 0 && depth < maxDepth {
		var next [][]int
		for _, path := range frontier {
			for op := 0; op < nops; op++ {
				if stop != nil && stop() {
					return st
				}
				np := make([]int, len(path)+1)
				copy(np, path)
				np[len(path)] = op
				key, ok := apply(np)
				if !ok {
					continue
				}
				st.Transitions++
				if !seen[key] {
					seen[key] = true
					st.States++
					next = append(next, np)
					if maxStates > 0 && int(st.States) >= maxStates {
						st.StateCapHit = true
						return st
					}
				}
			}
		}
		frontier = next
		depth++
		if len(next) > 0 {
			st.MaxDepth = depth
		}
	}
	st.Exhausted = len(frontier) == 0
	return st
}
