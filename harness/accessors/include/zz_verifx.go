package include

import "sort"

// VerifxCacheKeys lists the cached paths (sorted).
func (l *Loader) VerifxCacheKeys() []string {
	l.mu.RLock()
	defer l.mu.RUnlock()
	keys := make([]string, 0, len(l.cache))
	for k := range l.cache {
		keys = append(keys, k)
	}
	sort.Strings(keys)
	return keys
}

// VerifxCacheIncludes returns, per cached path, the include paths of the cached AST.
func (l *Loader) VerifxCacheIncludes() map[string][]string {
	l.mu.RLock()
	defer l.mu.RUnlock()
	out := make(map[string][]string, len(l.cache))
	for k, j := range l.cache {
		var inc []string
		if j != nil {
			for _, i := range j.Includes {
				inc = append(inc, i.Path)
			}
			inc = append(inc, "#tx")
			for _, tx := range j.Transactions {
				inc = append(inc, tx.Description)
			}
		}
		out[k] = inc
	}
	return out
}
