package workspace

import (
	"fmt"
	"sort"
	"strings"
)

// VerifxGraphs renders the include graph, the reverse graph and the indexed
// file set canonically (part of the explorers' state key).
func (w *Workspace) VerifxGraphs() string {
	w.mu.RLock()
	defer w.mu.RUnlock()
	var lines []string
	for k, v := range w.includeGraph {
		vv := append([]string(nil), v...)
		sort.Strings(vv)
		lines = append(lines, fmt.Sprintf("inc %s -> %v", k, vv))
	}
	for k, v := range w.reverseGraph {
		vv := append([]string(nil), v...)
		sort.Strings(vv)
		if len(vv) > 0 {
			lines = append(lines, fmt.Sprintf("rev %s <- %v", k, vv))
		}
	}
	if w.index != nil {
		for k := range w.index.fileIndexes {
			lines = append(lines, "indexed "+k)
		}
	}
	sort.Strings(lines)
	return strings.Join(lines, "\n")
}
