package workspace

import (
	"fmt"
	"sort"
	"strings"
)

// VerifxGraphs renders the include graph, the reverse graph and the indexed
// file set canonically (part of the explorers' state key).
func (w *Workspace) VerifxGraphs() string {
	w.mu.RLock()
	defer w.mu.RUnlock()
	var lines []string
	for k, v := range w.includeGraph {
		vv := append([]string(nil), v...)
		sort.Strings(vv)
		lines = append(lines, fmt.Sprintf("inc %s -> %v", k, vv))
	}
	for k, v := range w.reverseGraph {
		vv := append([]string(nil), v...)
		sort.Strings(vv)
		if len(vv) > 0 {
			lines = append(lines, fmt.Sprintf("rev %s <- %v", k, vv))
		}
	}
	if w.index != nil {
		for k := range w.index.fileIndexes {
			lines = append(lines, "indexed "+k)
		}
	}
	sort.Strings(lines)
	return strings.Join(lines, "\n")
}

// VerifxContent renders, per file of the workspace's resolved tree, which
// version of the file the workspace holds (transaction descriptions and
// account directives identify a version in the explorers' worlds).
func (w *Workspace) VerifxContent() string {
	w.mu.RLock()
	defer w.mu.RUnlock()
	if w.resolved == nil {
		return "no resolved tree"
	}
	var lines []string
	add := func(path string, txs []string, accts []string) {
		lines = append(lines, fmt.Sprintf("ws %s tx=%v accounts=%v", path, txs, accts))
	}
	if j := w.resolved.Primary; j != nil {
		var txs, accts []string
		for _, t := range j.Transactions {
			txs = append(txs, t.Description)
		}
		for _, d := range j.Directives {
			accts = append(accts, fmt.Sprintf("%T", d))
		}
		add(w.resolved.PrimaryPath, txs, accts)
	}
	for path, j := range w.resolved.Files {
		if j == nil {
			continue
		}
		var txs, accts []string
		for _, t := range j.Transactions {
			txs = append(txs, t.Description)
		}
		for _, d := range j.Directives {
			accts = append(accts, fmt.Sprintf("%T", d))
		}
		add(path, txs, accts)
	}
	sort.Strings(lines)
	return strings.Join(lines, "\n")
}
