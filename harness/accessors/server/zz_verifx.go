package server

import (
	"fmt"
	"sort"
	"strings"

	"go.lsp.dev/protocol"

	"github.com/juev/hledger-lsp/internal/include"
)

// VerifxDump returns a canonical, read-only description of the server state
// that the explorers use as part of a state key. Only call it when no
// controlled execution is in progress.
func (s *Server) VerifxDump() string {
	var b strings.Builder
	var lines []string
	s.documents.Range(func(k, v any) bool {
		lines = append(lines, fmt.Sprintf("doc %v=%q", k, v))
		return true
	})
	s.resolved.Range(func(k, v any) bool {
		r, _ := v.(*include.ResolvedJournal)
		d := "nil"
		if r != nil {
			d = fmt.Sprintf("files=%v", r.FileOrder)
			if r.Primary != nil {
				d += fmt.Sprintf(" tx=%d dir=%d inc=%d", len(r.Primary.Transactions), len(r.Primary.Directives), len(r.Primary.Includes))
				for _, tx := range r.Primary.Transactions {
					d += fmt.Sprintf(" [%v %q %d]", tx.Date, tx.Description, len(tx.Postings))
				}
			}
		}
		lines = append(lines, fmt.Sprintf("resolved %v=%s", k, d))
		return true
	})
	s.payeeTemplatesCache.Range(func(k, v any) bool {
		lines = append(lines, fmt.Sprintf("ptc %v=%v", k, v))
		return true
	})
	sort.Strings(lines)
	for _, l := range lines {
		b.WriteString(l)
		b.WriteByte('\n')
	}
	b.WriteString(fmt.Sprintf("settings=%+v\n", s.getSettings()))
	b.WriteString(VerifxTokenCacheDump())
	return b.String()
}

// VerifxSettings is the effective settings rendered as text.
func (s *Server) VerifxSettings() string { return fmt.Sprintf("%+v", s.getSettings()) }

// VerifxSettingsMap exposes the effective settings field by field.
func (s *Server) VerifxSettingsMap() map[string]any {
	st := s.getSettings()
	return map[string]any{
		"features.hover":                     st.Features.Hover,
		"features.completion":                st.Features.Completion,
		"features.formatting":                st.Features.Formatting,
		"features.diagnostics":               st.Features.Diagnostics,
		"features.semanticTokens":            st.Features.SemanticTokens,
		"features.codeActions":               st.Features.CodeActions,
		"features.foldingRanges":             st.Features.FoldingRanges,
		"features.documentLinks":             st.Features.DocumentLinks,
		"features.workspaceSymbol":           st.Features.WorkspaceSymbol,
		"features.inlineCompletion":          st.Features.InlineCompletion,
		"completion.maxResults":              st.Completion.MaxResults,
		"completion.fuzzyMatching":           st.Completion.FuzzyMatching,
		"completion.showCounts":              st.Completion.ShowCounts,
		"diagnostics.undeclaredAccounts":     st.Diagnostics.UndeclaredAccounts,
		"diagnostics.undeclaredCommodities":  st.Diagnostics.UndeclaredCommodities,
		"diagnostics.unbalancedTransactions": st.Diagnostics.UnbalancedTransactions,
		"formatting.indentSize":              st.Formatting.IndentSize,
		"formatting.alignAmounts":            st.Formatting.AlignAmounts,
		"formatting.minAlignmentColumn":      st.Formatting.MinAlignmentColumn,
		"cli.enabled":                        st.CLI.Enabled,
		"cli.path":                           st.CLI.Path,
		"cli.timeout":                        int64(st.CLI.Timeout / 1000000),
		"limits.maxFileSizeBytes":            st.Limits.MaxFileSizeBytes,
		"limits.maxIncludeDepth":             st.Limits.MaxIncludeDepth,
	}
}

// VerifxTokenCacheDump renders the process-global semantic token cache.
func VerifxTokenCacheDump() string {
	tokenCache.mu.RLock()
	defer tokenCache.mu.RUnlock()
	var lines []string
	for k, v := range tokenCache.cache {
		lines = append(lines, fmt.Sprintf("tok %v id=%s n=%d data=%v", k, v.resultID, len(v.tokens), v.data))
	}
	sort.Strings(lines)
	return strings.Join(lines, "\n") + fmt.Sprintf("\ntokid=%d\n", tokenCache.resultID)
}

// VerifxResetGlobals resets process-global state between explored executions.
func VerifxResetGlobals() {
	tokenCache.mu.Lock()
	tokenCache.cache = make(map[protocol.DocumentURI]*cachedSemanticTokens)
	tokenCache.resultID = 0
	tokenCache.mu.Unlock()
}

// VerifxCachesDump renders the loader's parse cache and the workspace's view
// (which version of each file they hold), for state keys of history searches.
func (s *Server) VerifxCachesDump() string {
	var b strings.Builder
	ci := s.loader.VerifxCacheIncludes()
	var ks []string
	for k, v := range ci {
		ks = append(ks, fmt.Sprintf("loader %s=%v", k, v))
	}
	sort.Strings(ks)
	b.WriteString(strings.Join(ks, "\n"))
	b.WriteString("\n")
	if s.workspace != nil {
		b.WriteString(s.workspace.VerifxGraphs())
		b.WriteString("\n")
		b.WriteString(s.workspace.VerifxContent())
	}
	return b.String()
}
