package props

import (
	"fmt"
	"os"
	"path/filepath"
	"sort"
	"strings"

	"github.com/juev/hledger-lsp/internal/include"
	"github.com/juev/hledger-lsp/internal/verifx/core"
	"github.com/juev/hledger-lsp/internal/verifx/wire"
)

func init() { core.Register("C10", checkC10) }

// ---- include graph scenarios (DESIGN §4.4) ---------------------------------

const incPad = 10 // file i starts with incPad*i comment lines: a line number identifies file and edge

// incGraph: N files f0..f(N-1); Adj[i][j] = file i includes file j; Dangle = (i,j)
// edge redirected to a missing file (or -1).
type incGraph struct {
	N       int    `json:"n"`
	Adj     uint32 `json:"adj"` // bit i*N+j
	DangleI int    `json:"dangle_i"`
	DangleJ int    `json:"dangle_j"`
	Depth   int    `json:"depth"`     // 0 = default
	BigFile int    `json:"big_file"`  // -1 = none; file made larger than the size limit
	Form    string `json:"path_form"` // "", "dot", "abs", "home", "abs-dot", "abs-slash", "abs-dotdot", "mixed"
}

func (g incGraph) edge(i, j int) bool { return g.Adj&(1<<uint(i*g.N+j)) != 0 }

func (g incGraph) nedges() int {
	n := 0
	for k := 0; k < g.N*g.N; k++ {
		if g.Adj&(1<<uint(k)) != 0 {
			n++
		}
	}
	return n
}

func incName(i int) string { return fmt.Sprintf("f%d.journal", i) }

type incDirective struct {
	Line   int // 1-based line of the directive
	Target string
}

func (g incGraph) directives(i int) []incDirective {
	var out []incDirective
	line := incPad*i + 1
	for j := 0; j < g.N; j++ {
		if g.edge(i, j) {
			t := incName(j)
			if g.DangleI == i && g.DangleJ == j {
				t = fmt.Sprintf("missing%d.journal", j)
			}
			out = append(out, incDirective{line, t})
			line++
		}
	}
	return out
}

const incBigPad = 3000

func (g incGraph) content(dir, home string, i int) string {
	var b strings.Builder
	for k := 0; k < incPad*i; k++ {
		b.WriteString("; pad\n")
	}
	for _, d := range g.directives(i) {
		form := g.Form
		if form == "mixed" {
			// the spelling depends on the including file: the same target is
			// named canonically by even files and non-canonically by odd ones
			form = ""
			if i%2 == 1 {
				form = "abs-dot"
			}
		}
		switch form {
		case "abs-dot":
			b.WriteString("include " + dir + "/./" + d.Target + "\n")
		case "abs-slash":
			b.WriteString("include " + dir + "//" + d.Target + "\n")
		case "abs-dotdot":
			b.WriteString("include " + dir + "/sub/../" + d.Target + "\n")
		case "dot":
			b.WriteString("include ./" + d.Target + "\n")
		case "abs":
			b.WriteString("include " + filepath.Join(dir, d.Target) + "\n")
		case "home":
			rel, _ := filepath.Rel(home, filepath.Join(dir, d.Target))
			b.WriteString("include ~/" + rel + "\n")
		default:
			b.WriteString("include " + d.Target + "\n")
		}
	}
	b.WriteString(fmt.Sprintf("\n2001-01-0%d tx of file %d\n    a:f%d  %d USD\n    a:cash  -%d USD\n", i+1, i, i, i+1, i+1))
	if g.BigFile == i {
		b.WriteString("; " + strings.Repeat("x", incBigPad) + "\n")
	}
	return b.String()
}

func (g incGraph) materialise(dir, home string) {
	_ = os.MkdirAll(filepath.Join(dir, "sub"), 0o755) // for the "abs-dotdot" path form
	for i := 0; i < g.N; i++ {
		_ = os.WriteFile(filepath.Join(dir, incName(i)), []byte(g.content(dir, home, i)), 0o644)
	}
}

type incErr struct {
	Kind   string `json:"kind"` // cycle | notfound | toolarge | toodeep | other:<n>
	Target string `json:"target"`
	Line   int    `json:"line"`
	// RootLine: line of the root file's directive through which the file that
	// holds the failing directive is reached (= Line for the root's own directives)
	RootLine int `json:"root_line,omitempty"`
}

func (e incErr) String() string { return fmt.Sprintf("%s(%s@%d)", e.Kind, e.Target, e.Line) }

// refWalk is the reference resolution: depth-first in directive order with an
// ancestor stack and a loaded set.
func (g incGraph) refWalk(root int, depthLimit int) (loaded map[string]bool, order []string, errs []incErr) {
	if depthLimit <= 0 {
		depthLimit = 50
	}
	loaded = map[string]bool{}
	onStack := map[string]bool{}
	rootLine := 0
	var walk func(i int, depth int)
	walk = func(i int, depth int) {
		name := incName(i)
		loaded[name] = true
		if i != root || depth > 0 {
			order = append(order, name)
		}
		onStack[name] = true
		for _, d := range g.directives(i) {
			if i == root && depth == 0 {
				rootLine = d.Line
			}
			if strings.HasPrefix(d.Target, "missing") {
				errs = append(errs, incErr{"notfound", d.Target, d.Line, rootLine})
				continue
			}
			if onStack[d.Target] {
				errs = append(errs, incErr{"cycle", d.Target, d.Line, rootLine})
				continue
			}
			if loaded[d.Target] {
				continue
			}
			var j int
			fmt.Sscanf(d.Target, "f%d.journal", &j)
			if g.BigFile == j {
				errs = append(errs, incErr{"toolarge", d.Target, d.Line, rootLine})
				continue
			}
			if depth+1 >= depthLimit {
				errs = append(errs, incErr{"toodeep", d.Target, d.Line, rootLine})
				continue
			}
			walk(j, depth+1)
		}
		onStack[name] = false
	}
	walk(root, 0)
	return
}

func classifyLoadErr(e include.LoadError) incErr {
	kind := fmt.Sprintf("other:%d", int(e.Kind))
	switch e.Kind {
	case include.ErrorCycleDetected:
		if strings.Contains(e.Message, "depth limit") {
			kind = "toodeep"
		} else {
			kind = "cycle"
		}
	case include.ErrorFileNotFound:
		kind = "notfound"
	case include.ErrorFileTooLarge:
		kind = "toolarge"
	case include.ErrorParseError:
		kind = "parse"
	}
	return incErr{Kind: kind, Target: filepath.Base(e.Path), Line: e.Range.Start.Line}
}

func sortedErrs(es []incErr) []string {
	var out []string
	for _, e := range es {
		out = append(out, e.String())
	}
	sort.Strings(out)
	return out
}

// describe the shape of a graph for signatures
func (g incGraph) shape(root int) string {
	var tags []string
	// self loop, cycle, diamond (node reachable along two different acyclic paths)
	self := false
	for i := 0; i < g.N; i++ {
		if g.edge(i, i) {
			self = true
		}
	}
	if self {
		tags = append(tags, "selfloop")
	}
	_, _, errs := g.refWalk(root, 0)
	cyc := false
	for _, e := range errs {
		if e.Kind == "cycle" {
			cyc = true
		}
	}
	if cyc {
		tags = append(tags, "cycle")
	}
	if g.hasRejoin(root) {
		tags = append(tags, "rejoin")
	}
	if g.DangleI >= 0 {
		tags = append(tags, "dangling")
	}
	if g.Depth > 0 {
		tags = append(tags, "depthlimit")
	}
	if g.BigFile >= 0 {
		tags = append(tags, "sizelimit")
	}
	if len(tags) == 0 {
		return "tree"
	}
	return strings.Join(tags, "+")
}

// hasRejoin: some file is the target of two include directives that are both
// followed by the reference walk and the second is not a cycle (a second
// acyclic path).
func (g incGraph) hasRejoin(root int) bool {
	loaded := map[int]bool{}
	onStack := map[int]bool{}
	rejoin := false
	var walk func(i int)
	walk = func(i int) {
		loaded[i] = true
		onStack[i] = true
		for j := 0; j < g.N; j++ {
			if !g.edge(i, j) || (g.DangleI == i && g.DangleJ == j) {
				continue
			}
			if onStack[j] {
				continue
			}
			if loaded[j] {
				rejoin = true
				continue
			}
			walk(j)
		}
		onStack[i] = false
	}
	walk(root)
	return rejoin
}

type c10Case struct {
	Graph incGraph `json:"graph"`
	Mode  string   `json:"mode"` // load | content | wire
	Files map[string]string
}

func c10Check(c *core.Ctx, dir, home string, g incGraph, mode string) {
	g.materialise(dir, home)
	root := 0
	rootPath := filepath.Join(dir, incName(root))
	wantLoaded, _, wantErrs := g.refWalk(root, g.Depth)
	cas := c10Case{Graph: g, Mode: mode}
	shape := g.shape(root)
	viol := func(clause, class, detail string) {
		files := map[string]string{}
		for i := 0; i < g.N; i++ {
			files[incName(i)] = g.content("<dir>", "<home>", i)
		}
		cas.Files = files
		c.Violate(fmt.Sprintf("%s|%s|%s", clause, shape, class), clause, detail, cas)
	}
	c.Res.Evaluations++
	if shape != "tree" {
		c.Res.Nontrivial++
	}
	if mode == "wire" {
		c10Wire(c, dir, g, rootPath, wantErrs, viol)
		return
	}
	l := include.NewLoader()
	lim := include.DefaultLimits()
	if g.Depth > 0 {
		lim.MaxIncludeDepth = g.Depth
	}
	if g.BigFile >= 0 {
		lim.MaxFileSizeBytes = incBigPad
	}
	l.SetLimits(lim)
	var res *include.ResolvedJournal
	var errs []include.LoadError
	if mode == "content" {
		res, errs = l.LoadFromContent(rootPath, g.content(dir, home, root))
	} else {
		res, errs = l.Load(rootPath)
	}
	if res == nil {
		viol("returns a result", "nil result", fmt.Sprintf("errors=%v", errs))
		return
	}
	// (ii) files
	got := map[string]bool{incName(root): true}
	for p := range res.Files {
		got[filepath.Base(p)] = true
	}
	if !sameSet(got, wantLoaded) {
		class := "missing files"
		if len(got) > len(wantLoaded) {
			class = "extra files"
		}
		viol("files equal the reachable set", class, fmt.Sprintf("got %v want %v", keys(got), keys(wantLoaded)))
	}
	seen := map[string]bool{}
	for _, p := range res.FileOrder {
		if seen[p] {
			viol("each file once", "duplicate in FileOrder", fmt.Sprintf("FileOrder=%v", baseNames(res.FileOrder)))
			break
		}
		seen[p] = true
	}
	fo := map[string]bool{}
	for _, p := range res.FileOrder {
		fo[filepath.Base(p)] = true
	}
	fk := map[string]bool{}
	for p := range res.Files {
		fk[filepath.Base(p)] = true
	}
	if !sameSet(fo, fk) {
		viol("each file once", "FileOrder differs from Files", fmt.Sprintf("FileOrder=%v Files=%v", keys(fo), keys(fk)))
	}
	// (iii)+(iv) errors
	var gotErrs []incErr
	for _, e := range errs {
		ce := classifyLoadErr(e)
		if ce.Kind == "parse" {
			viol("no parse errors on supported journals", "parse error", e.Message)
			continue
		}
		gotErrs = append(gotErrs, ce)
	}
	ge, we := sortedErrs(gotErrs), sortedErrs(wantErrs)
	if strings.Join(ge, ",") != strings.Join(we, ",") {
		viol("verdicts on the naming directive", diffClass(gotErrs, wantErrs), fmt.Sprintf("got %v want %v", ge, we))
	}
}

// diffClass names how the error multisets differ, in model terms.
func diffClass(got, want []incErr) string {
	cnt := func(es []incErr, withLine bool) map[string]int {
		m := map[string]int{}
		for _, e := range es {
			k := e.Kind
			if withLine {
				k = e.String()
			}
			m[k]++
		}
		return m
	}
	gk, wk := cnt(got, false), cnt(want, false)
	var parts []string
	kinds := map[string]bool{}
	for k := range gk {
		kinds[k] = true
	}
	for k := range wk {
		kinds[k] = true
	}
	var ks []string
	for k := range kinds {
		ks = append(ks, k)
	}
	sort.Strings(ks)
	for _, k := range ks {
		switch {
		case gk[k] > wk[k]:
			parts = append(parts, "spurious "+k)
		case gk[k] < wk[k]:
			parts = append(parts, "missing "+k)
		}
	}
	if len(parts) == 0 {
		// same kinds, different target or line
		gl, wl := cnt(got, true), cnt(want, true)
		for k := range gl {
			if gl[k] != wl[k] {
				if strings.HasSuffix(k, "@0)") {
					return "verdict without the directive's range"
				}
			}
		}
		return "verdict on the wrong directive"
	}
	return strings.Join(parts, ", ")
}

func c10Wire(c *core.Ctx, dir string, g incGraph, rootPath string, wantErrs []incErr, viol func(clause, class, detail string)) {
	s := wire.New()
	s.Initialize(wire.InitOpts{})
	uri := wire.URI(rootPath)
	b, _ := os.ReadFile(rootPath)
	s.DidOpen(uri, string(b))
	last := s.Client.Last(uri)
	diags := parseDiags(last)
	var gotLines []int
	for _, d := range diags {
		if d.Code == "" && d.Source == "hledger-lsp" {
			gotLines = append(gotLines, d.StartLine+1)
		}
	}
	// an error of a directive inside an included file is shown on the root's
	// directive that leads there; every diagnostic lies inside the document
	var wantLines []int
	for _, e := range wantErrs {
		wantLines = append(wantLines, e.RootLine)
	}
	nlines := strings.Count(string(b), "\n") + 1
	for _, d := range diags {
		if d.StartLine >= nlines || d.EndLine >= nlines {
			viol("diagnostics published on include lines", "diagnostic outside the document", fmt.Sprintf("lines %d..%d of a document with %d lines: %s", d.StartLine, d.EndLine, nlines, d.Message))
			break
		}
	}
	sort.Ints(gotLines)
	sort.Ints(wantLines)
	if fmt.Sprint(gotLines) != fmt.Sprint(wantLines) {
		class := "diagnostics on other lines"
		if len(gotLines) > len(wantLines) {
			class = "spurious diagnostics"
		} else if len(gotLines) < len(wantLines) {
			class = "missing diagnostics"
		}
		viol("diagnostics published on include lines", class, fmt.Sprintf("got lines %v want %v (%s)", gotLines, wantLines, last))
	}
}

func sameSet(a, b map[string]bool) bool {
	if len(a) != len(b) {
		return false
	}
	for k := range a {
		if !b[k] {
			return false
		}
	}
	return true
}

func keys(m map[string]bool) []string {
	var out []string
	for k := range m {
		out = append(out, k)
	}
	sort.Strings(out)
	return out
}

func baseNames(ps []string) []string {
	var out []string
	for _, p := range ps {
		out = append(out, filepath.Base(p))
	}
	return out
}

func checkC10(c *core.Ctx) {
	dir := filepath.Join(c.Scratch, "c10")
	_ = os.MkdirAll(dir, 0o755)
	home := os.Getenv("HOME")
	if c.Replay != nil {
		var cs c10Case
		if err := jsonUnmarshal(c.Replay, &cs); err != nil {
			c.Res.InfraError = "bad replay: " + err.Error()
			return
		}
		if cs.Mode == "glob" {
			c10Globs(c, dir)
			return
		}
		if cs.Mode == "glob-cycle" {
			c10GlobCycles(c, dir)
			return
		}
		if cs.Mode == "glob-wire" {
			c10GlobWire(c, dir)
			return
		}
		c10Check(c, dir, home, cs.Graph, cs.Mode)
		return
	}
	maxEdges4 := 16 // all 65 536 graphs on 4 files (cheap enough for the quick tier)
	base := func(n int, adj uint32) incGraph {
		return incGraph{N: n, Adj: adj, DangleI: -1, DangleJ: -1, BigFile: -1}
	}
	sampled := 0
	run := func(g incGraph, mode string) {
		if !c.Mine() {
			return
		}
		c10Check(c, dir, home, g, mode)
		if sampled < 3 && g.shape(0) != "tree" && g.nedges() >= 3 {
			sampled++
			c.Sample(map[string]any{"graph": g, "mode": mode, "shape": g.shape(0), "edges": g.edgeList()})
		}
	}
	// A. all graphs on 3 files; graphs on 4 files up to maxEdges4 edges
	for adj := uint32(0); adj < 1<<9; adj++ {
		g := base(3, adj)
		run(g, "load")
		run(g, "content")
	}
	n4 := 0
	for adj := uint32(0); adj < 1<<16; adj++ {
		g := base(4, adj)
		if g.nedges() > maxEdges4 {
			continue
		}
		n4++
		run(g, "load")
		if g.nedges() <= 4 || c.Thorough() {
			run(g, "content")
		}
		if c.Expired() {
			return
		}
	}
	c.Bound("graphs", fmt.Sprintf("all 512 graphs on 3 files; %d graphs on 4 files with <= %d edges", n4, maxEdges4))
	// B. dangling targets: every single edge redirected to a missing file
	for n := 3; n <= 4; n++ {
		for adj := uint32(0); adj < 1<<uint(n*n); adj++ {
			g := base(n, adj)
			if n == 4 && g.nedges() > 4 && !c.Thorough() {
				continue
			}
			if n == 4 && g.nedges() > 8 {
				continue
			}
			for i := 0; i < n; i++ {
				for j := 0; j < n; j++ {
					if g.edge(i, j) {
						d := g
						d.DangleI, d.DangleJ = i, j
						run(d, "load")
					}
				}
			}
		}
		if c.Expired() {
			return
		}
	}
	// C. limits
	for n := 3; n <= 4; n++ {
		for adj := uint32(0); adj < 1<<uint(n*n); adj++ {
			g := base(n, adj)
			if n == 4 && g.nedges() > 4 {
				continue
			}
			for depth := 1; depth <= 5; depth++ {
				d := g
				d.Depth = depth
				run(d, "load")
			}
			for big := 1; big < n; big++ {
				d := g
				d.BigFile = big
				run(d, "load")
			}
		}
		if c.Expired() {
			return
		}
	}
	// D. path forms on all 3-file graphs
	for _, form := range []string{"dot", "abs", "home", "abs-dot", "abs-slash", "abs-dotdot", "mixed"} {
		for adj := uint32(0); adj < 1<<9; adj++ {
			g := base(3, adj)
			g.Form = form
			run(g, "load")
		}
	}
	// E. wire: diagnostics on include lines
	for adj := uint32(0); adj < 1<<9; adj++ {
		g := base(3, adj)
		if adj%2 == 0 || c.Thorough() {
			run(g, "wire")
		}
	}
	// F. globs
	if c.MineKey(7) {
		c10Globs(c, filepath.Join(c.Scratch, "c10glob"))
	}
	if c.MineKey(8) {
		c10GlobWire(c, filepath.Join(c.Scratch, "c10globwire"))
		c10GlobCycles(c, filepath.Join(c.Scratch, "c10globcycle"))
	}
}

// c10GlobWire: an include error inside a file that was matched by a glob is
// shown on the glob directive of the opened document.
func c10GlobWire(c *core.Ctx, dir string) {
	_ = os.RemoveAll(dir)
	_ = os.MkdirAll(dir, 0o755)
	pad := strings.Repeat("; pad\n", 8)
	cases := []struct{ name, inner string }{
		{"missing file", pad + "include nowhere.journal\n"},
		{"cycle to the root", pad + "include r.journal\n"},
		{"failing glob", pad + "include none*.journal\n"},
	}
	for _, cs := range cases {
		files := map[string]string{
			"r.journal":  "; first line\ninclude f?.journal\n\n2001-01-01 root\n    a:r  1 USD\n    a:cash  -1 USD\n",
			"f1.journal": cs.inner + "\n2001-01-02 one\n    a:one  1 USD\n    a:cash  -1 USD\n",
			"f2.journal": "2001-01-03 two\n    a:two  1 USD\n    a:cash  -1 USD\n",
		}
		writeFiles(dir, files)
		s := wire.New()
		s.Initialize(wire.InitOpts{})
		uri := wire.URI(filepath.Join(dir, "r.journal"))
		s.DidOpen(uri, files["r.journal"])
		last := s.Client.Last(uri)
		c.Res.Evaluations++
		c.Res.Nontrivial++
		var lines []int
		for _, d := range parseDiags(last) {
			if d.Code == "" && d.Source == "hledger-lsp" {
				lines = append(lines, d.StartLine)
			}
		}
		if fmt.Sprint(lines) != "[1]" {
			c.Violate("glob|nested verdict not on the glob directive|"+cs.name, "diagnostics published on include lines",
				fmt.Sprintf("r.journal includes f?.journal on line 1; f1.journal has a failing include (%s) on its line 8: load diagnostics on lines %v, want [1]\n%s", cs.name, lines, last),
				map[string]any{"mode": "glob-wire", "case": cs.name})
		}
	}
}

func (g incGraph) edgeList() []string {
	var out []string
	for i := 0; i < g.N; i++ {
		for j := 0; j < g.N; j++ {
			if g.edge(i, j) {
				out = append(out, fmt.Sprintf("f%d->f%d", i, j))
			}
		}
	}
	return out
}

// c10GlobCycles: a glob that matches a file which is being included (an
// ancestor other than the file the pattern stands in) closes a cycle like a
// plain include does: one cycle verdict, the other matches are loaded.
func c10GlobCycles(c *core.Ctx, dir string) {
	tx := func(i int) string {
		return fmt.Sprintf("\n2001-01-0%d glob cycle file %d\n    a:g%d  1 USD\n    a:cash  -1 USD\n", i+1, i, i)
	}
	worlds := []struct {
		name  string
		files map[string]string
		want  []string // files loaded besides the root a.journal
		cycle []string // targets of the cycle verdicts
	}{
		{"plain include, then a glob matching the root and a third file", map[string]string{"a.journal": "include b.journal\n" + tx(0), "b.journal": "include *.journal\n" + tx(1), "c.journal": tx(2)}, []string{"b.journal", "c.journal"}, []string{"a.journal"}},
		{"plain include, then a glob matching only the root", map[string]string{"a.journal": "include b.journal\n" + tx(0), "b.journal": "include *.journal\n" + tx(1)}, []string{"b.journal"}, []string{"a.journal"}},
		{"glob in the root and in a matched file", map[string]string{"a.journal": "include *.journal\n" + tx(0), "b.journal": "include *.journal\n" + tx(1), "c.journal": tx(2)}, []string{"b.journal", "c.journal"}, []string{"a.journal"}},
		{"chain of two plain includes, then a glob matching both ancestors", map[string]string{"a.journal": "include b.journal\n" + tx(0), "b.journal": "include sub/c.journal\n" + tx(1), "sub/c.journal": "include ../*.journal\n" + tx(2)}, []string{"b.journal", "sub/c.journal"}, []string{"a.journal", "b.journal"}},
	}
	for _, w := range worlds {
		_ = os.RemoveAll(dir)
		_ = os.MkdirAll(filepath.Join(dir, "sub"), 0o755)
		writeFiles(dir, w.files)
		for _, mode := range []string{"Load", "LoadFromContent"} {
			l := include.NewLoader()
			var res *include.ResolvedJournal
			var errs []include.LoadError
			if mode == "Load" {
				res, errs = l.Load(filepath.Join(dir, "a.journal"))
			} else {
				res, errs = l.LoadFromContent(filepath.Join(dir, "a.journal"), w.files["a.journal"])
			}
			c.Res.Evaluations++
			c.Res.Nontrivial++
			cas := map[string]any{"mode": "glob-cycle", "world": w.name}
			if res == nil {
				c.Violate("glob cycle|nil result|"+w.name, "returns a result", fmt.Sprint(errs), cas)
				continue
			}
			var got []string
			for path := range res.Files {
				rel, _ := filepath.Rel(dir, path)
				got = append(got, rel)
			}
			sort.Strings(got)
			if fmt.Sprint(got) != fmt.Sprint(w.want) {
				c.Violate("glob cycle|wrong file set|"+w.name, "a glob closing a cycle loads the other matches", fmt.Sprintf("%s (%s): loaded %v, expected %v", w.name, mode, got, w.want), cas)
			}
			var cyc, other []string
			for _, e := range errs {
				rel, _ := filepath.Rel(dir, e.Path)
				switch e.Kind {
				case include.ErrorParseError:
				case include.ErrorCycleDetected:
					cyc = append(cyc, rel)
				default:
					other = append(other, fmt.Sprintf("%d:%s", e.Kind, e.Message))
				}
			}
			sort.Strings(cyc)
			if fmt.Sprint(cyc) != fmt.Sprint(w.cycle) || len(other) > 0 {
				c.Violate("glob cycle|verdicts|"+w.name, "a glob closing a cycle is reported as a cycle", fmt.Sprintf("%s (%s): cycle verdicts for %v (expected %v), other verdicts %v", w.name, mode, cyc, w.cycle, other), cas)
			}
		}
	}
}

// c10Globs: fixed 5-file layout (root r.journal, siblings f1, f2, two in sub/)
// x patterns, each pattern placed in each file.
func c10Globs(c *core.Ctx, dir string) {
	_ = os.RemoveAll(dir)
	_ = os.MkdirAll(filepath.Join(dir, "sub"), 0o755)
	files := []string{"r.journal", "f1.journal", "f2.journal", "sub/s1.journal", "sub/s2.journal"}
	tx := func(i int) string {
		return fmt.Sprintf("\n2001-01-0%d glob file %d\n    a:g%d  1 USD\n    a:cash  -1 USD\n", i+1, i, i)
	}
	type pat struct {
		p       string
		matches func(from string) []string // relative names matched when the pattern stands in file `from`
	}
	inDir := func(d string, names ...string) func(string) []string {
		return func(from string) []string {
			if filepath.Dir(from) != d && !(d == "." && filepath.Dir(from) == ".") {
				return nil
			}
			return names
		}
	}
	_ = inDir
	pats := []string{"*.journal", "f?.journal", "f[12].journal", "sub/*.journal", "**/*.journal", "<->/*.journal", "none*.journal",
		// patterns whose only match can be the including file itself
		"r*.journal", "s1*.journal"}
	expect := func(pattern, from string) []string {
		base := filepath.Dir(from) // "." or "sub"
		var all []string
		for _, f := range files {
			all = append(all, f)
		}
		var out []string
		for _, f := range all {
			rel, err := filepath.Rel(base, f)
			if err != nil || strings.HasPrefix(rel, "..") {
				continue
			}
			ok := false
			switch pattern {
			case "*.journal":
				ok = !strings.Contains(rel, "/")
			case "f?.journal", "~/f?.journal":
				ok = !strings.Contains(rel, "/") && len(rel) == len("f1.journal") && strings.HasPrefix(rel, "f")
			case "f[12].journal":
				ok = rel == "f1.journal" || rel == "f2.journal"
			case "sub/*.journal", "~/sub/*.journal":
				ok = strings.HasPrefix(rel, "sub/") && strings.Count(rel, "/") == 1
			case "**/*.journal":
				ok = true
			case "<->/*.journal":
				ok = true
			case "none*.journal":
				ok = false
			case "r*.journal":
				ok = rel == "r.journal"
			case "s1*.journal":
				ok = rel == "s1.journal"
			}
			if ok && f != from {
				out = append(out, f)
			}
		}
		sort.Strings(out)
		return out
	}
	// the same patterns written relative to the home directory ("~/...") when they stand in the root file
	home := os.Getenv("HOME")
	relHome, relErr := filepath.Rel(home, dir)
	if home != "" && relErr == nil {
		pats = append(pats, "~/f?.journal", "~/sub/*.journal")
	}
	for _, from := range files {
		for _, p := range pats {
			if strings.HasPrefix(p, "~/") && from != "r.journal" {
				continue
			}
			for i, f := range files {
				content := tx(i)
				if f == from {
					written := p
					if strings.HasPrefix(p, "~/") {
						written = "~/" + relHome + "/" + p[2:]
					}
					content = "include " + written + "\n" + content
				}
				_ = os.WriteFile(filepath.Join(dir, f), []byte(content), 0o644)
			}
			want := expect(p, from)
			l := include.NewLoader()
			res, errs := l.Load(filepath.Join(dir, from))
			c.Res.Evaluations++
			c.Res.Nontrivial++
			cas := map[string]any{"mode": "glob", "pattern": p, "in": from}
			if res == nil {
				c.Violate("glob|nil result|"+p, "returns a result", fmt.Sprint(errs), cas)
				continue
			}
			var got []string
			for path := range res.Files {
				rel, _ := filepath.Rel(dir, path)
				got = append(got, rel)
			}
			sort.Strings(got)
			if fmt.Sprint(got) != fmt.Sprint(want) {
				class := "wrong match set"
				for _, g := range got {
					if g == from {
						class = "matches the including file"
					}
				}
				c.Violate("glob|"+class+"|"+p, "glob resolves to the matching files, never the including file", fmt.Sprintf("pattern %s in %s: got %v want %v", p, from, got, want), cas)
			}
			nerr := 0
			for _, e := range errs {
				if e.Kind == include.ErrorParseError {
					continue
				}
				nerr++
				if e.Range.Start.Line != 1 {
					c.Violate("glob|error without directive range|"+p, "empty match reported on its directive", fmt.Sprintf("%+v", e), cas)
				}
			}
			if len(want) == 0 && nerr != 1 {
				c.Violate("glob|empty match not reported|"+p, "empty match reported on its directive", fmt.Sprintf("pattern %s in %s: errors %v", p, from, errs), cas)
			}
			if len(want) > 0 && nerr != 0 {
				c.Violate("glob|spurious error|"+p, "glob include loads without error", fmt.Sprintf("pattern %s in %s: errors %v", p, from, errs), cas)
			}
		}
	}
}
