package props

import (
	"encoding/json"
	"fmt"
	"os"
	"path/filepath"
	"sort"
	"strings"

	"github.com/juev/hledger-lsp/internal/verifx/core"
	"github.com/juev/hledger-lsp/internal/verifx/gmodel"
	"github.com/juev/hledger-lsp/internal/verifx/refbuf"
	"github.com/juev/hledger-lsp/internal/verifx/wire"
)

func init() { core.Register("C09", checkC09) }

var c09Files = []string{"main.journal", "a.journal", "b.journal", "c.journal"}

// include trees rooted at file 0: parent[i] for i >= 1
func c09Trees(n int) [][]int {
	var out [][]int
	var rec func(i int, parent []int)
	rec = func(i int, parent []int) {
		if i == n {
			// must be a tree rooted at 0 (every node reaches 0): parent index < node is not required, check acyclicity
			ok := true
			for k := 1; k < n; k++ {
				seen := map[int]bool{}
				x := k
				for x != 0 {
					if seen[x] {
						ok = false
						break
					}
					seen[x] = true
					x = parent[x]
				}
			}
			if ok {
				out = append(out, append([]int(nil), parent...))
			}
			return
		}
		for p := 0; p < n; p++ {
			if p != i {
				rec(i+1, append(parent[:len(parent):len(parent)], p))
			}
		}
	}
	rec(1, []int{-1})
	return out
}

type c09Scenario struct {
	N      int    `json:"files"`
	Parent []int  `json:"parent"`
	Kind   string `json:"kind"` // account commodity payee
	Counts []int  `json:"occurrences"`
	Decl   int    `json:"declaration_in"` // -1 none
	// DiagOff: the server is initialised with features.diagnostics=false
	DiagOff bool `json:"diagnostics_feature_off,omitempty"`
	// DeclTwice: the declaring file has the directive twice
	DeclTwice bool `json:"declared_twice,omitempty"`
	Root      bool `json:"workspace_root"`
	EditFile  int  `json:"unsaved_edit_in"` // -1 none
	EditAdd   bool `json:"unsaved_edit_adds"`
	OpenAll   bool `json:"all_open"`
	// Extra include directives (from, to) on top of the tree: a file reachable along two paths
	Extra [][2]int `json:"extra_includes,omitempty"`
	// History before the requests: "" (documents just opened), "reanalyse" (the
	// requesting document receives a change that leaves its text as it is: second
	// analysis with warm caches), "discard" (the edited file was opened with its
	// disk text, changed, and closed without saving; the requester stays open)
	History string `json:"history,omitempty"`
	// NonBMP: the symbol's name contains a character outside the BMP
	NonBMP bool `json:"non_bmp_name,omitempty"`
}

// reach: files reachable from file a through include directives (a itself excluded unless on a cycle)
func (sc c09Scenario) reach(a int) map[int]bool {
	seen := map[int]bool{}
	queue := []int{a}
	for len(queue) > 0 {
		y := queue[0]
		queue = queue[1:]
		next := func(k int) {
			if !seen[k] && k != a {
				seen[k] = true
				queue = append(queue, k)
			}
		}
		for k := 1; k < sc.N; k++ {
			if sc.Parent[k] == y {
				next(k)
			}
		}
		for _, e := range sc.Extra {
			if e[0] == y {
				next(e[1])
			}
		}
	}
	return seen
}

const (
	c09Account   = "assets:bank"
	c09AccountD  = "assets:bankers" // distractor sharing a prefix
	c09Commodity = "EUR"
	c09CommD     = "EURX"
	c09Payee     = "shop"
	c09PayeeD    = "shopping"
)

func (sc c09Scenario) symbol() string {
	if sc.NonBMP {
		// names with a character outside the BMP (columns count UTF-16 units)
		switch sc.Kind {
		case "account":
			return "assets:b🍕nk"
		case "commodity":
			return c09Commodity
		}
		return "sh🍕p"
	}
	switch sc.Kind {
	case "account":
		return c09Account
	case "commodity":
		return c09Commodity
	}
	return c09Payee
}

func (sc c09Scenario) newName() string {
	switch sc.Kind {
	case "account":
		return "assets:renamed"
	case "commodity":
		return "CHF"
	}
	return "market"
}

// journal of file f with `count` occurrences of name sym (and the distractor in file 0)
func (sc c09Scenario) journal(f, count int, sym string) *gmodel.Journal {
	j := &gmodel.Journal{LineEnd: "\n", FinalNewline: true, Blank: 1}
	for k := 1; k < sc.N; k++ {
		if sc.Parent[k] == f {
			j.Entries = append(j.Entries, gmodel.Entry{Kind: gmodel.EntryInclude, Path: c09Files[k]})
		}
	}
	for _, e := range sc.Extra {
		if e[0] == f {
			j.Entries = append(j.Entries, gmodel.Entry{Kind: gmodel.EntryInclude, Path: c09Files[e[1]]})
		}
	}
	if sc.Decl == f {
		switch sc.Kind {
		case "account":
			j.Entries = append(j.Entries, gmodel.Entry{Kind: gmodel.EntryAccount, Account: sym})
		case "commodity":
			j.Entries = append(j.Entries, gmodel.Entry{Kind: gmodel.EntryCommodity, Sym: sym, Format: "1.000,00 " + sym})
		}
		if sc.DeclTwice {
			j.Entries = append(j.Entries, j.Entries[len(j.Entries)-1])
		}
	}
	tx := func(day int, payee, account, comm string) gmodel.Entry {
		return gmodel.Entry{Kind: gmodel.EntryTx, Tx: &gmodel.Tx{
			Date: gmodel.Date{Y: 2001, M: f + 1, D: day, Sep: "-", Pad: true}, Gap: 1, HeaderKind: gmodel.HeaderDesc, Desc: payee,
			Postings: []gmodel.Posting{
				{Indent: "    ", Account: account, Sep: "  ", Amount: &gmodel.Amount{Num: gmodel.Num("5", "5"), Sym: comm, Side: gmodel.SideRight, Gap: 1}},
				{Indent: "    ", Account: "equity:other"},
			}}}
	}
	for i := 0; i < count; i++ {
		payee, account, comm := fmt.Sprintf("payee%d%d", f, i), "expenses:misc", "USD"
		switch sc.Kind {
		case "account":
			account = sym
		case "commodity":
			comm = sym
		default:
			payee = sym
		}
		j.Entries = append(j.Entries, tx(i+1, payee, account, comm))
	}
	if f == 0 {
		// distractor sharing a prefix
		switch sc.Kind {
		case "account":
			j.Entries = append(j.Entries, tx(9, "other", c09AccountD, "USD"))
		case "commodity":
			j.Entries = append(j.Entries, tx(9, "other", "expenses:misc", c09CommD))
		default:
			j.Entries = append(j.Entries, tx(9, c09PayeeD, "expenses:misc", "USD"))
		}
	}
	return j
}

type c09Loc struct {
	File  int
	Range lspRange
	Decl  bool
}

func (l c09Loc) String() string {
	d := ""
	if l.Decl {
		d = " (declaration)"
	}
	return fmt.Sprintf("%s %s%s", c09Files[l.File], l.Range, d)
}

// occurrences of sym in a rendered file
func c09Occurrences(rd *gmodel.Rendered, file int, kind, sym string) []c09Loc {
	var out []c09Loc
	for _, sp := range rd.Spans {
		match := false
		decl := false
		switch kind {
		case "account":
			match = sp.Kind == "account" && sp.Name == sym
			decl = sp.Role == "directive"
		case "commodity":
			match = sp.Kind == "commodity" && sp.Name == sym && sp.Role != "directive"
			decl = sp.Role == "format"
		default:
			match = (sp.Kind == "description" || sp.Kind == "payee") && sp.Name == sym
		}
		if match {
			out = append(out, c09Loc{file, lspRange{lspPos{sp.Line, sp.U0}, lspPos{sp.Line, sp.U1}}, decl})
		}
	}
	return out
}

func (sc c09Scenario) features(req int) string {
	var f []string
	if sc.Root {
		f = append(f, "workspace root")
	} else {
		f = append(f, "no workspace")
	}
	if req == 0 {
		f = append(f, "request from the root file")
	} else {
		f = append(f, "request from an included file")
	}
	if sc.EditFile >= 0 {
		switch {
		case sc.EditFile == req:
			f = append(f, "unsaved edit in the requesting file")
		default:
			f = append(f, "unsaved edit in another open file")
		}
	}
	if len(sc.Extra) > 0 {
		f = append(f, "a file included along two paths")
	}
	if sc.NonBMP {
		f = append(f, "name with a non-BMP character")
	}
	switch sc.History {
	case "reanalyse":
		f = append(f, "requesting document analysed a second time")
	case "discard":
		f = append(f, "the edit was discarded by closing the file")
	case "includes-by-edit":
		f = append(f, "the root's include lines arrived with an edit")
	case "saved":
		f = append(f, "the edit was saved and the file closed")
	case "discard-opened":
		f = append(f, "the file was opened with unsaved text and closed again")
	case "included-gains-include":
		f = append(f, "the include lines of an included file arrived with an unsaved edit")
	case "two-edits-after-analysis":
		f = append(f, "two files edited without saving after the requester was analysed")
	}
	if sc.DeclTwice {
		f = append(f, "declared twice in the declaring file")
	}
	if sc.DiagOff {
		f = append(f, "diagnostics feature switched off")
	}
	return strings.Join(f, ", ")
}

// relation of file x to the requesting file
func (sc c09Scenario) relation(req, x int) string {
	if x == req {
		return "requesting file"
	}
	if sc.reach(req)[x] {
		return "file included by the requesting file"
	}
	if sc.reach(x)[req] {
		return "file that includes the requesting file"
	}
	return "sibling file"
}

type c09Case struct {
	Scenario c09Scenario `json:"scenario"`
	Request  int         `json:"request_from"`
	Line     int         `json:"line"`
	Char     int         `json:"character"`
	Decl     bool        `json:"include_declaration"`
}

func c09Run(c *core.Ctx, dir string, sc c09Scenario, only *c09Case) {
	sym := sc.symbol()
	// disk texts and editor texts
	disk := make([]*gmodel.Rendered, sc.N)
	editor := make([]*gmodel.Rendered, sc.N)
	open := make([]bool, sc.N)
	for f := 0; f < sc.N; f++ {
		disk[f] = sc.journal(f, sc.Counts[f], sym).Render()
		editor[f] = disk[f]
		if sc.EditFile == f {
			n := sc.Counts[f] + 1
			if !sc.EditAdd {
				n = sc.Counts[f] - 1
			}
			editor[f] = sc.journal(f, n, sym).Render()
			open[f] = true
		}
		if sc.OpenAll {
			open[f] = true
		}
	}
	_ = os.RemoveAll(dir)
	_ = os.MkdirAll(dir, 0o755)
	for f := 0; f < sc.N; f++ {
		_ = os.WriteFile(filepath.Join(dir, c09Files[f]), []byte(disk[f].Text), 0o644)
	}
	uriOf := func(f int) string { return wire.URI(filepath.Join(dir, c09Files[f])) }
	fileOf := map[string]int{}
	for f := 0; f < sc.N; f++ {
		fileOf[uriOf(f)] = f
	}
	current := func(f int) *gmodel.Rendered {
		if open[f] {
			return editor[f]
		}
		return disk[f]
	}
	// requesting files: every file with an occurrence in its current text
	for req := 0; req < sc.N; req++ {
		if only != nil && only.Request != req {
			continue
		}
		reqOcc := c09Occurrences(current(req), req, sc.Kind, sym)
		if len(reqOcc) == 0 && !(sc.EditFile == req) {
			continue
		}
		byEdit := sc.History == "includes-by-edit" && sc.Root && sc.EditFile != 0
		mainPath := filepath.Join(dir, c09Files[0])
		stripped := strings.ReplaceAll(disk[0].Text, "include ", "; nclude ")
		if byEdit {
			// the workspace starts from a root journal without its include lines
			_ = os.WriteFile(mainPath, []byte(stripped), 0o644)
		}
		// "included-gains-include": an included file that includes further files
		// is saved without its include lines; they arrive with an unsaved edit
		gains := -1
		if sc.History == "included-gains-include" && sc.EditFile < 0 && !sc.OpenAll {
			for f := 1; f < sc.N && gains < 0; f++ {
				for k := 1; k < sc.N; k++ {
					if sc.Parent[k] == f {
						gains = f
					}
				}
			}
			if gains < 0 {
				continue
			}
			_ = os.WriteFile(filepath.Join(dir, c09Files[gains]), []byte(strings.ReplaceAll(disk[gains].Text, "include ", "; nclude ")), 0o644)
		}
		s := wire.New()
		root := ""
		if sc.Root {
			root = dir
		}
		initOptions := ""
		if sc.DiagOff {
			// diagnostics are not shown; everything else answers as before
			initOptions = `{"features":{"diagnostics":false}}`
		}
		s.Initialize(wire.InitOpts{Root: root, Options: initOptions})
		s.Initialized()
		mainOpened := false
		if byEdit {
			// ... and the include lines arrive with an edit of the open root journal
			s.DidOpen(uriOf(0), stripped)
			s.DidChangeFull(uriOf(0), current(0).Text, 2)
			_ = os.WriteFile(mainPath, []byte(disk[0].Text), 0o644)
			mainOpened = true
		}
		wasOpen := open[req]
		open[req] = true // the requesting document is open (with its editor text, = disk unless edited)
		kept := false
		var savedDisk *gmodel.Rendered
		savedEditor, savedOpen := editor[max(sc.EditFile, 0)], open[max(sc.EditFile, 0)]
		if sc.History == "discard" && sc.EditFile >= 0 && sc.EditFile != req {
			ef := sc.EditFile
			s.DidOpen(uriOf(req), current(req).Text)
			s.DidOpen(uriOf(ef), disk[ef].Text)
			s.DidChangeFull(uriOf(ef), editor[ef].Text, 2)
			if occ := c09Occurrences(current(req), req, sc.Kind, sym); len(occ) > 0 {
				s.Call("textDocument/references", fmt.Sprintf(`{"textDocument":{"uri":%s},"position":{"line":%d,"character":%d},"context":{"includeDeclaration":true}}`, wire.Q(uriOf(req)), occ[0].Range.Start.Line, occ[0].Range.Start.Char))
			}
			s.DidClose(uriOf(ef))
			editor[ef], open[ef] = disk[ef], false
			kept = true
		}
		if sc.History == "discard-opened" && sc.EditFile >= 0 && sc.EditFile != req {
			// the edited file was opened with its unsaved text straight away (restored
			// buffer) and closed without any change: the saved text counts again
			ef := sc.EditFile
			s.DidOpen(uriOf(req), current(req).Text)
			s.DidOpen(uriOf(ef), editor[ef].Text)
			s.DidClose(uriOf(ef))
			editor[ef], open[ef] = disk[ef], false
			kept = true
		}
		second := -1
		var secondEditor *gmodel.Rendered
		if sc.History == "two-edits-after-analysis" {
			// two included files get unsaved edits after the requester was analysed
			for g := 1; g < sc.N; g++ {
				if g != sc.EditFile && g != req && second < 0 {
					second = g
				}
			}
			if second < 0 || sc.EditFile < 1 || sc.EditFile == req {
				open[req] = wasOpen
				continue
			}
			ef := sc.EditFile
			secondEditor, editor[second] = editor[second], sc.journal(second, sc.Counts[second]+1, sym).Render()
			s.DidOpen(uriOf(req), current(req).Text)
			s.DidOpen(uriOf(ef), disk[ef].Text)
			s.DidOpen(uriOf(second), disk[second].Text)
			s.DidChangeFull(uriOf(ef), editor[ef].Text, 2)
			s.DidChangeFull(uriOf(second), editor[second].Text, 2)
			open[second] = true
			kept = true
		}
		if sc.History == "saved" && sc.EditFile >= 0 && sc.EditFile != req {
			// the edited file was opened with its saved text, changed, saved (file
			// written, didSave) and closed; the requester stays open meanwhile
			ef := sc.EditFile
			s.DidOpen(uriOf(req), current(req).Text)
			s.DidOpen(uriOf(ef), disk[ef].Text)
			s.DidChangeFull(uriOf(ef), editor[ef].Text, 2)
			_ = os.WriteFile(filepath.Join(dir, c09Files[ef]), []byte(editor[ef].Text), 0o644)
			s.DidSave(uriOf(ef))
			s.DidClose(uriOf(ef))
			savedDisk = disk[ef]
			disk[ef], open[ef] = editor[ef], false
			kept = true
		}
		if gains >= 0 {
			// the requester is analysed while the file has no include lines yet
			if gains != req {
				s.DidOpen(uriOf(req), current(req).Text)
				kept = true
			}
			s.DidOpen(uriOf(gains), strings.ReplaceAll(disk[gains].Text, "include ", "; nclude "))
			s.DidChangeFull(uriOf(gains), disk[gains].Text, 2)
			if gains == req {
				kept = true
			}
		}
		for f := 0; f < sc.N; f++ {
			if open[f] && !(kept && f == req) && !(mainOpened && f == 0) && !(second >= 0 && (f == second || f == sc.EditFile)) {
				s.DidOpen(uriOf(f), current(f).Text)
			}
		}
		if sc.History == "reanalyse" {
			s.DidChangeFull(uriOf(req), current(req).Text, 2)
		}
		// documents whose editor text differs from what was opened first are changed (unsaved edit)
		// expected set
		inScope := map[int]bool{}
		if sc.Root {
			for f := 0; f < sc.N; f++ {
				inScope[f] = true
			}
		} else {
			inScope[req] = true
			for f := 0; f < sc.N; f++ {
				if sc.relation(req, f) == "file included by the requesting file" {
					inScope[f] = true
				}
			}
		}
		for _, withDecl := range []bool{true, false} {
			if only != nil && only.Decl != withDecl {
				continue
			}
			var want []c09Loc
			for f := 0; f < sc.N; f++ {
				if !inScope[f] {
					continue
				}
				for _, o := range c09Occurrences(current(f), f, sc.Kind, sym) {
					if o.Decl && !withDecl {
						continue
					}
					want = append(want, o)
				}
			}
			wantSet := map[string]c09Loc{}
			for _, o := range want {
				wantSet[o.String()] = o
			}
			for _, occ := range c09Occurrences(current(req), req, sc.Kind, sym) {
				for ch := occ.Range.Start.Char; ch <= occ.Range.End.Char; ch++ {
					if only != nil && (only.Line != occ.Range.Start.Line || only.Char != ch) {
						continue
					}
					c.Res.Evaluations++
					nfilesWithOcc := 0
					for f := 0; f < sc.N; f++ {
						if inScope[f] && len(c09Occurrences(current(f), f, sc.Kind, sym)) > 0 {
							nfilesWithOcc++
						}
					}
					if nfilesWithOcc >= 2 || req != 0 || sc.EditFile >= 0 {
						c.Res.Nontrivial++
					}
					cas := c09Case{sc, req, occ.Range.Start.Line, ch, withDecl}
					r := s.Call("textDocument/references", fmt.Sprintf(`{"textDocument":{"uri":%s},"position":{"line":%d,"character":%d},"context":{"includeDeclaration":%v}}`, wire.Q(uriOf(req)), occ.Range.Start.Line, ch, withDecl))
					var locs []struct {
						URI   string   `json:"uri"`
						Range lspRange `json:"range"`
					}
					_ = json.Unmarshal([]byte(r.Result), &locs)
					gotSet := map[string]bool{}
					var problems []string
					for _, l := range locs {
						f, ok := fileOf[l.URI]
						if !ok {
							problems = append(problems, "location in an unknown file "+l.URI)
							continue
						}
						key := c09Loc{File: f, Range: l.Range}.String()
						keyD := c09Loc{File: f, Range: l.Range, Decl: true}.String()
						switch {
						case wantSet[key].Range == l.Range && wantSet[key].File == f && !wantSet[key].Decl && hasKey(wantSet, key):
							if gotSet[key] {
								problems = append(problems, "occurrence listed twice in "+sc.relation(req, f))
							}
							gotSet[key] = true
						case hasKey(wantSet, keyD):
							if gotSet[keyD] {
								problems = append(problems, "declaration listed twice in "+sc.relation(req, f))
							}
							gotSet[keyD] = true
						default:
							// is it an occurrence of some other in-scope / out-of-scope file's text attributed wrongly?
							class := "location that is no occurrence in " + sc.relation(req, f)
							for g := 0; g < sc.N; g++ {
								for _, o := range c09Occurrences(current(g), g, sc.Kind, sym) {
									if o.Range == l.Range && g != f {
										class = "occurrence of " + sc.relation(req, g) + " attributed to " + sc.relation(req, f)
									}
								}
								if !open[g] {
									continue
								}
								for _, o := range c09Occurrences(disk[g], g, sc.Kind, sym) {
									if o.Range == l.Range && g == f && disk[g] != current(g) {
										class = "occurrence of the saved (not the edited) text of " + sc.relation(req, f)
									}
								}
							}
							problems = append(problems, class)
						}
					}
					for k, o := range wantSet {
						if !gotSet[k] {
							w := "occurrence"
							if o.Decl {
								w = "declaration"
							}
							problems = append(problems, "missing "+w+" in "+sc.relation(req, o.File))
						}
					}
					if len(problems) > 0 {
						sort.Strings(problems)
						problems = uniq(problems)
						c.Violate(fmt.Sprintf("references|%s|%s|%s", sc.Kind, strings.Join(problems, "; "), sc.features(req)), "references are exactly the symbol's occurrences, attributed to their files",
							fmt.Sprintf("request from %s at %d:%d (includeDeclaration=%v)\nexpected %v\ngot %s", c09Files[req], occ.Range.Start.Line, ch, withDecl, sortedKeysOf(wantSet), r.Result), cas)
					}
					// rename (declarations always included)
					if withDecl {
						c09Rename(c, s, sc, req, occ, ch, cas, inScope, current, uriOf, fileOf)
					}
				}
			}
		}
		open[req] = wasOpen
		if second >= 0 {
			editor[second], open[second] = secondEditor, false
		}
		if sc.EditFile >= 0 {
			editor[sc.EditFile], open[sc.EditFile] = savedEditor, savedOpen
			if savedDisk != nil {
				disk[sc.EditFile] = savedDisk
				_ = os.WriteFile(filepath.Join(dir, c09Files[sc.EditFile]), []byte(savedDisk.Text), 0o644)
			}
		}
	}
}

func hasKey(m map[string]c09Loc, k string) bool { _, ok := m[k]; return ok }

func uniq(s []string) []string {
	var out []string
	for i, x := range s {
		if i == 0 || x != s[i-1] {
			out = append(out, x)
		}
	}
	return out
}

func sortedKeysOf(m map[string]c09Loc) []string {
	var ks []string
	for k := range m {
		ks = append(ks, k)
	}
	sort.Strings(ks)
	return ks
}

func c09Rename(c *core.Ctx, s *wire.Session, sc c09Scenario, req int, occ c09Loc, ch int, cas c09Case, inScope map[int]bool,
	current func(int) *gmodel.Rendered, uriOf func(int) string, fileOf map[string]int) {
	nn := sc.newName()
	r := s.Call("textDocument/rename", fmt.Sprintf(`{"textDocument":{"uri":%s},"position":{"line":%d,"character":%d},"newName":%s}`, wire.Q(uriOf(req)), occ.Range.Start.Line, ch, wire.Q(nn)))
	var we struct {
		Changes map[string][]refbuf.TextEdit `json:"changes"`
	}
	_ = json.Unmarshal([]byte(r.Result), &we)
	var problems []string
	for f := 0; f < sc.N; f++ {
		cur := current(f)
		// expected text: re-render with the name substituted (in scope), unchanged otherwise
		want := cur.Text
		if inScope[f] {
			cnt := strings.Count(cur.Text, "") // placeholder to keep the compiler honest
			_ = cnt
			want = c09Substituted(sc, f, cur, nn)
		}
		edits := we.Changes[uriOf(f)]
		buf := refbuf.New(cur.Text)
		if msg := buf.CheckEdits(edits); msg != "" {
			problems = append(problems, "ill-formed edits for "+sc.relation(req, f))
			continue
		}
		got := buf.ApplyEdits(edits)
		if got != want {
			switch {
			case got == cur.Text:
				problems = append(problems, "occurrences not renamed in "+sc.relation(req, f))
			case !inScope[f]:
				problems = append(problems, "text changed in a file out of scope ("+sc.relation(req, f)+")")
			default:
				problems = append(problems, "wrong text after rename in "+sc.relation(req, f))
			}
		}
	}
	for u := range we.Changes {
		if _, ok := fileOf[u]; !ok {
			problems = append(problems, "edits for an unknown file")
		}
	}
	if len(problems) > 0 {
		sort.Strings(problems)
		problems = uniq(problems)
		c.Violate(fmt.Sprintf("rename|%s|%s|%s", sc.Kind, strings.Join(problems, "; "), sc.features(req)), "rename edits exactly the occurrences; result equals the model with the name substituted",
			fmt.Sprintf("rename from %s at %d:%d to %q\nresult %s", c09Files[req], occ.Range.Start.Line, ch, nn, firstN(r.Result, 1500)), cas)
	}
}

// c09Substituted: the text of file f rendered from the model with the symbol replaced by nn.
func c09Substituted(sc c09Scenario, f int, cur *gmodel.Rendered, nn string) string {
	// count occurrences in the current text to re-render the same journal shape
	n := 0
	for _, o := range c09Occurrences(cur, f, sc.Kind, sc.symbol()) {
		if !o.Decl {
			n++
		}
	}
	return sc.journal(f, n, nn).Render().Text
}

func checkC09(c *core.Ctx) {
	dir := filepath.Join(c.Scratch, "c09")
	if c.Replay != nil {
		var cs c09Case
		if err := jsonUnmarshal(c.Replay, &cs); err != nil {
			c.Res.InfraError = "bad replay: " + err.Error()
			return
		}
		c09Run(c, dir, cs.Scenario, &cs)
		return
	}
	maxN := 3
	if c.Thorough() {
		maxN = 4
	}
	c.Bound("workspaces", fmt.Sprintf("1..%d files, every include tree rooted at main.journal, 0..2 occurrences per file (thorough: all placement vectors; quick: <= 1 file with 2), declaration in one file or none, workspace root on/off, one file with an unsaved edit that adds or removes an occurrence, or none; small scenarios also after a second analysis of the requesting document and after the edit was discarded by closing; 3 graphs with a file included along two paths", maxN))
	sampled := 0
	for n := 1; n <= maxN; n++ {
		for _, tree := range c09Trees(n) {
			for _, kind := range []string{"account", "commodity", "payee"} {
				counts := make([]int, n)
				var recCounts func(i int)
				recCounts = func(i int) {
					if i == n {
						total, twos := 0, 0
						for _, x := range counts {
							total += x
							if x == 2 {
								twos++
							}
						}
						if total == 0 || (!c.Thorough() && twos > 1) || (n == 4 && twos > 1) {
							return
						}
						for decl := -1; decl < n; decl++ {
							if kind == "payee" && decl >= 0 {
								continue
							}
							for _, root := range []bool{false, true} {
								for ef := -1; ef < n; ef++ {
									for _, add := range []bool{true, false} {
										if ef < 0 && !add {
											continue
										}
										if ef >= 0 && !add && counts[ef] == 0 {
											continue
										}
										for _, openAll := range []bool{false, true} {
											if openAll && (ef >= 0 || n == 1) {
												continue
											}
											if !c.Mine() {
												continue
											}
											sc := c09Scenario{N: n, Parent: tree, Kind: kind, Counts: append([]int(nil), counts...), Decl: decl, Root: root, EditFile: ef, EditAdd: add, OpenAll: openAll}
											c09Run(c, dir, sc, nil)
											if n >= 2 && ef < 0 && !openAll && (total <= 2 || c.Thorough()) {
												off := sc
												off.DiagOff = true
												c09Run(c, dir, off, nil)
											}
											if decl >= 0 && kind != "payee" && ef < 0 && !openAll && (total <= 2 || c.Thorough()) {
												tw := sc
												tw.DeclTwice = true
												c09Run(c, dir, tw, nil)
											}
											if kind != "commodity" && ef < 0 && !openAll && (total <= 2 || c.Thorough()) {
												nb := sc
												nb.NonBMP = true
												c09Run(c, dir, nb, nil)
											}
											if n >= 2 && (total <= 2 || c.Thorough()) {
												// the same scenario from non-initial states
												h := sc
												h.History = "reanalyse"
												c09Run(c, dir, h, nil)
												if ef >= 0 {
													h.History = "discard"
													c09Run(c, dir, h, nil)
													h.History = "saved"
													c09Run(c, dir, h, nil)
													h.History = "discard-opened"
													c09Run(c, dir, h, nil)
												}
												if root && ef != 0 {
													h.History = "includes-by-edit"
													c09Run(c, dir, h, nil)
												}
												if ef < 0 && !openAll && n >= 3 {
													h.History = "included-gains-include"
													c09Run(c, dir, h, nil)
												}
												if ef >= 1 && add && n >= 3 {
													h.History = "two-edits-after-analysis"
													c09Run(c, dir, h, nil)
												}
											}
											if sampled < 2 && n == 3 && ef >= 0 {
												sampled++
												c.Sample(sc)
											}
										}
									}
								}
							}
						}
						return
					}
					for v := 0; v <= 2; v++ {
						counts[i] = v
						recCounts(i + 1)
					}
				}
				recCounts(0)
				if c.Expired() {
					return
				}
			}
		}
	}
	// a file reachable along two include paths: its occurrences are listed once
	diamonds := []c09Scenario{
		{N: 3, Parent: []int{-1, 0, 1}, Extra: [][2]int{{0, 2}}},
		{N: 4, Parent: []int{-1, 0, 0, 1}, Extra: [][2]int{{2, 3}}},
		{N: 4, Parent: []int{-1, 0, 1, 2}, Extra: [][2]int{{0, 3}, {1, 3}}},
	}
	for _, d := range diamonds {
		for _, kind := range []string{"account", "commodity", "payee"} {
			for _, root := range []bool{false, true} {
				for ef := -1; ef < d.N; ef++ {
					for _, hist := range []string{"", "reanalyse"} {
						if !c.Mine() {
							continue
						}
						sc := d
						sc.Kind, sc.Root, sc.EditFile, sc.EditAdd, sc.History = kind, root, ef, true, hist
						sc.Counts = make([]int, d.N)
						for f := range sc.Counts {
							sc.Counts[f] = 1
						}
						sc.Decl = -1
						if kind != "payee" {
							sc.Decl = d.N - 1
						}
						c09Run(c, dir, sc, nil)
					}
				}
			}
		}
	}
}
