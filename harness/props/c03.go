package props

import (
	"fmt"
	"math/big"
	"sort"
	"strings"

	"github.com/juev/hledger-lsp/internal/ast"
	"github.com/juev/hledger-lsp/internal/parser"
	"github.com/juev/hledger-lsp/internal/verifx/core"
	"github.com/juev/hledger-lsp/internal/verifx/gmodel"
	"github.com/juev/hledger-lsp/internal/verifx/wire"
)

func init() { core.Register("C03", checkC03) }

func astAmountFields(prefix string, a *ast.Amount, out map[string]string) {
	if a == nil {
		out[prefix] = "none"
		return
	}
	out[prefix] = "present"
	r, ok := new(big.Rat).SetString(a.Quantity.String())
	if ok {
		out[prefix+".quantity"] = r.RatString()
	} else {
		out[prefix+".quantity"] = "unparsable:" + a.Quantity.String()
	}
	out[prefix+".commodity"] = a.Commodity.Symbol
	if a.Commodity.Symbol != "" {
		if a.Commodity.Position == ast.CommodityRight {
			out[prefix+".side"] = "right"
		} else {
			out[prefix+".side"] = "left"
		}
	}
}

func astTagList(lists ...[]ast.Tag) string {
	var ts []string
	for _, l := range lists {
		for _, t := range l {
			ts = append(ts, t.Name+"="+t.Value)
		}
	}
	sort.Strings(ts)
	return strings.Join(ts, ",")
}

func statusStr(s ast.Status) string {
	switch s {
	case ast.StatusCleared:
		return "*"
	case ast.StatusPending:
		return "!"
	}
	return ""
}

// astFields renders what the parser extracted under the same paths as gmodel.Fields.
func astFields(j *ast.Journal) map[string]string {
	out := map[string]string{}
	for i, t := range j.Transactions {
		p := fmt.Sprintf("tx[%d]", i)
		out[p+".date"] = fmt.Sprintf("%d-%d-%d", t.Date.Year, t.Date.Month, t.Date.Day)
		if t.Date2 != nil {
			out[p+".date2"] = fmt.Sprintf("%d-%d-%d", t.Date2.Year, t.Date2.Month, t.Date2.Day)
		} else {
			out[p+".date2"] = "none"
		}
		out[p+".status"] = statusStr(t.Status)
		out[p+".code"] = t.Code
		out[p+".description"] = t.Description
		out[p+".payee"] = t.Payee
		out[p+".note"] = t.Note
		var texts []string
		for _, cm := range t.Comments {
			texts = append(texts, strings.TrimSpace(cm.Text))
		}
		out[p+".comments"] = strings.Join(texts, " | ")
		lists := [][]ast.Tag{t.Tags}
		for _, c := range t.Comments {
			lists = append(lists, c.Tags)
		}
		out[p+".tags"] = astTagList(lists...)
		out[p+".npostings"] = fmt.Sprint(len(t.Postings))
		for k, ps := range t.Postings {
			pp := fmt.Sprintf("%s.p[%d]", p, k)
			out[pp+".status"] = statusStr(ps.Status)
			out[pp+".kind"] = []string{"ordinary", "balanced", "virtual"}[ps.Virtual]
			out[pp+".account"] = ps.Account.Name
			astAmountFields(pp+".amount", ps.Amount, out)
			if ps.Cost != nil {
				out[pp+".cost"] = "unit"
				if ps.Cost.IsTotal {
					out[pp+".cost"] = "total"
				}
				a := ps.Cost.Amount
				astAmountFields(pp+".cost.amount", &a, out)
			} else {
				out[pp+".cost"] = "none"
			}
			if ps.BalanceAssertion != nil {
				out[pp+".assertion"] = "plain"
				if ps.BalanceAssertion.IsStrict {
					out[pp+".assertion"] = "strict"
				}
				a := ps.BalanceAssertion.Amount
				astAmountFields(pp+".assertion.amount", &a, out)
			} else {
				out[pp+".assertion"] = "none"
			}
			out[pp+".comment"] = strings.TrimSpace(ps.Comment)
			out[pp+".tags"] = astTagList(ps.Tags)
		}
	}
	for i, d := range j.Directives {
		p := fmt.Sprintf("dir[%d]", i)
		switch x := d.(type) {
		case ast.AccountDirective:
			out[p+".kind"] = "account"
			out[p+".account"] = x.Account.Name
			out[p+".tags"] = astTagList(x.Tags)
		case ast.CommodityDirective:
			out[p+".kind"] = "commodity"
			out[p+".symbol"] = x.Commodity.Symbol
			out[p+".format"] = x.Format
		case ast.PriceDirective:
			out[p+".kind"] = "price"
			out[p+".date"] = fmt.Sprintf("%d-%d-%d", x.Date.Year, x.Date.Month, x.Date.Day)
			out[p+".symbol"] = x.Commodity.Symbol
			a := x.Price
			astAmountFields(p+".price", &a, out)
		case ast.YearDirective:
			out[p+".kind"] = "year"
			out[p+".year"] = fmt.Sprint(x.Year)
		case ast.DefaultCommodityDirective:
			out[p+".kind"] = "default-commodity"
			out[p+".symbol"] = x.Symbol
			out[p+".format"] = x.Format
		default:
			out[p+".kind"] = fmt.Sprintf("%T", d)
		}
	}
	for i, inc := range j.Includes {
		out[fmt.Sprintf("include[%d].path", i)] = inc.Path
	}
	for i, c := range j.Comments {
		out[fmt.Sprintf("comment[%d].text", i)] = strings.TrimSpace(c.Text)
	}
	out["count.tx"] = fmt.Sprint(len(j.Transactions))
	out["count.directives"] = fmt.Sprint(len(j.Directives))
	out["count.includes"] = fmt.Sprint(len(j.Includes))
	out["count.comments"] = fmt.Sprint(len(j.Comments))
	return out
}

type c03Finding struct {
	Clause string // generic field path or "syntax error"
	Class  string
	Detail string
}

// c03Eval parses the rendered journal and returns every discrepancy.
func c03Eval(j *gmodel.Journal) (text string, fs []c03Finding) {
	rd := j.Render()
	text = rd.Text
	parsed, errs := parser.Parse(text)
	for _, e := range errs {
		fs = append(fs, c03Finding{"syntax error", e.Message, fmt.Sprintf("parse error %d:%d %s", e.Pos.Line, e.Pos.Column, e.Message)})
	}
	if parsed == nil {
		fs = append(fs, c03Finding{"parse result", "nil journal", ""})
		return
	}
	got := astFields(parsed)
	seen := map[string]bool{}
	for _, f := range j.Fields() {
		g, ok := got[f.Path]
		if ok && g == f.Val {
			continue
		}
		gp := gmodel.GenericPath(f.Path)
		class := c03Class(gp, f.Val, g, ok)
		key := gp + "|" + class
		if seen[key] {
			continue
		}
		seen[key] = true
		fs = append(fs, c03Finding{gp, class, fmt.Sprintf("%s: written %q, extracted %q", f.Path, f.Val, g)})
	}
	return
}

// c03Class names how a field differs, in model terms.
func c03Class(path, want, got string, present bool) string {
	if !present {
		return "element not extracted"
	}
	switch {
	case strings.HasPrefix(path, "count."):
		if got > want && len(got) >= len(want) {
			return "more than written"
		}
		return "fewer than written"
	case strings.HasSuffix(path, ".quantity"):
		return "different quantity"
	case got == "" || got == "none":
		return "lost"
	case want == "" || want == "none":
		return "spurious"
	case strings.HasPrefix(want, got):
		return "truncated"
	case strings.HasSuffix(want, got) || strings.Contains(want, got):
		return "partial"
	case strings.Contains(got, want):
		return "includes neighbouring text"
	}
	return "different"
}

type c03Case struct {
	Devs []string `json:"deviations"`
	Text string   `json:"text"`
}

func checkC03(c *core.Ctx) {
	devs := gmodel.Deviations()
	byName := map[string]gmodel.Dev{}
	for _, d := range devs {
		byName[d.String()] = d
	}
	evalSet := func(applied []gmodel.Dev) (string, []c03Finding) {
		j := gmodel.Default()
		for _, d := range applied {
			d.Apply(j)
		}
		return c03Eval(j)
	}
	if c.Replay != nil {
		var cs c03Case
		if err := jsonUnmarshal(c.Replay, &cs); err != nil {
			c.Res.InfraError = "bad replay: " + err.Error()
			return
		}
		var applied []gmodel.Dev
		for _, n := range cs.Devs {
			if d, ok := byName[n]; ok {
				applied = append(applied, d)
			}
		}
		text, fs := evalSet(applied)
		c.Note("text:\n%s", text)
		for _, f := range fs {
			c.Violate(f.Clause+"|"+f.Class, f.Clause, f.Detail, cs)
		}
		return
	}
	c.Bound("catalogue", fmt.Sprintf("%d single deviations in %d parameter groups", len(devs), countGroups(devs)))
	cache := map[string][]c03Finding{}
	evalCached := func(applied []gmodel.Dev) []c03Finding {
		k := gmodel.DevNames(applied)
		if v, ok := cache[k]; ok {
			return v
		}
		_, fs := evalSet(applied)
		cache[k] = fs
		return fs
	}
	seenText := map[string]bool{}
	sampled := 0
	visit := func(j *gmodel.Journal, applied []gmodel.Dev) bool {
		if !c.Mine() {
			return true
		}
		text, fs := c03Eval(j)
		c.Res.Evaluations++
		h := core.Hash(text)
		if !seenText[h] {
			seenText[h] = true
			if len(applied) > 0 {
				c.Res.Nontrivial++
			}
		}
		if sampled < 3 && len(applied) == 2 && len(fs) == 0 {
			sampled++
			c.Sample(map[string]any{"deviations": gmodel.DevNames(applied), "text": text})
		}
		if len(fs) > 0 {
			// a journal whose deviation set contains an already failing proper
			// subset is charged to that subset (it is enumerated on its own)
			n := len(applied)
			for mask := 0; mask < (1<<n)-1; mask++ {
				var sub []gmodel.Dev
				for i := 0; i < n; i++ {
					if mask&(1<<i) != 0 {
						sub = append(sub, applied[i])
					}
				}
				if len(evalCached(sub)) > 0 {
					c.Count("violations charged to a failing subset of the deviations", 1)
					return !c.Expired()
				}
			}
			// after a syntax error the extracted structure is unreliable: report the errors only
			hasSyntax := false
			for _, f := range fs {
				if f.Clause == "syntax error" {
					hasSyntax = true
				}
			}
			var names []string
			for _, d := range applied {
				names = append(names, d.String())
			}
			sort.Strings(names)
			for _, f := range fs {
				if hasSyntax && f.Clause != "syntax error" {
					continue
				}
				c.Violate(fmt.Sprintf("%s|%s|%s", f.Clause, f.Class, strings.Join(names, " & ")),
					"extracted structure equals the written structure: "+f.Clause, f.Detail+"\n"+text, c03Case{names, text})
			}
		}
		return !c.Expired()
	}
	focus := gmodel.Filter(devs, "line-end", "date-sep", "date-pad", "date2", "status", "code", "header-gap", "header-kind", "desc-shape", "note-shape", "pipe-blanks", "header-comment",
		"commodity", "sign", "number", "cost", "assertion", "amount-sep")
	if c.Thorough() {
		c.Bound("deviation bound", "3 over the whole catalogue")
		gmodel.Enumerate(gmodel.Default, devs, 3, visit)
	} else {
		// bound 2 everywhere, bound 3 on header, amount and line-end parameters
		gmodel.Enumerate(gmodel.Default, devs, 2, visit)
		c.Bound("deviation bound", fmt.Sprintf("2 over the whole catalogue, 3 over the %d header/amount/line-end deviations", len(focus)))
		gmodel.Enumerate(gmodel.Default, focus, 3, func(j *gmodel.Journal, applied []gmodel.Dev) bool {
			if len(applied) < 3 {
				return true
			}
			return visit(j, applied)
		})
	}
	// neighbour pairs: every ordered pair of entry kinds adjacent with 0 and 1 blank lines
	c03Neighbours(c)
	// diagnostics clause through the wire seam: no code-less diagnostics on a subset (default + single deviations)
	if c.MineKey(3) {
		gmodel.Enumerate(gmodel.Default, devs, 1, func(j *gmodel.Journal, applied []gmodel.Dev) bool {
			for _, e := range j.Entries {
				if e.Kind == gmodel.EntryInclude {
					return true // a missing include legitimately yields a code-less diagnostic
				}
			}
			text := j.Render().Text
			_, perr := parser.Parse(text)
			s := wire.New()
			s.Initialize(wire.InitOpts{})
			uri := "file:///c03/doc.journal"
			s.DidOpen(uri, text)
			n := 0
			for _, d := range parseDiags(s.Client.Last(uri)) {
				if d.Code == "" {
					n++
				}
			}
			c.Res.Evaluations++
			if n != len(perr) {
				c.Violate("published syntax diagnostics differ from parse errors", "syntax-error diagnostics", fmt.Sprintf("%d code-less diagnostics, %d parse errors\n%s", n, len(perr), text), c03Case{[]string{gmodel.DevNames(applied)}, text})
			}
			return true
		})
	}
}

func countGroups(devs []gmodel.Dev) int {
	g := map[string]bool{}
	for _, d := range devs {
		g[d.Group] = true
	}
	return len(g)
}

func c03Neighbours(c *core.Ctx) {
	de := gmodel.DirectiveEntries()
	var kinds []string
	for k := range de {
		kinds = append(kinds, k)
	}
	sort.Strings(kinds)
	kinds = append(kinds, "tx")
	mk := func(k string, i int) gmodel.Entry {
		if k == "tx" {
			j := gmodel.Default()
			e := j.Entries[i%2]
			return e
		}
		return de[k]
	}
	for _, a := range kinds {
		for _, b := range kinds {
			for _, blank := range []int{0, 1} {
				if !c.Mine() {
					continue
				}
				j := &gmodel.Journal{LineEnd: "\n", FinalNewline: true, Blank: blank, Entries: []gmodel.Entry{mk(a, 0), mk(b, 1)}}
				text, fs := c03Eval(j)
				c.Res.Evaluations++
				c.Res.Nontrivial++
				// minimal cause: the single entries alone
				single := map[string]bool{}
				for _, k := range []string{a, b} {
					_, sfs := c03Eval(&gmodel.Journal{LineEnd: "\n", FinalNewline: true, Blank: 1, Entries: []gmodel.Entry{mk(k, 0)}})
					for _, f := range sfs {
						single[f.Clause+"|"+f.Class] = true
					}
				}
				for _, f := range fs {
					if single[f.Clause+"|"+f.Class] {
						continue
					}
					c.Violate(fmt.Sprintf("%s|%s|neighbours %s then %s, %d blank lines", f.Clause, f.Class, a, b, blank),
						"extracted structure equals the written structure: "+f.Clause, f.Detail+"\n"+text, c03Case{[]string{"neighbours:" + a + "," + b}, text})
				}
			}
		}
	}
}
