package props

import (
	"encoding/json"
	"os"
	"path/filepath"
)

func jsonUnmarshal(b []byte, v any) error { return json.Unmarshal(b, v) }

// writeFiles materialises files (relative name -> content) under dir.
func writeFiles(dir string, files map[string]string) {
	for name, content := range files {
		p := filepath.Join(dir, name)
		_ = os.MkdirAll(filepath.Dir(p), 0o755)
		_ = os.WriteFile(p, []byte(content), 0o644)
	}
}

// Diag is one decoded diagnostic of a PublishDiagnostics notification.
type Diag struct {
	StartLine, StartChar, EndLine, EndChar int
	Code, Message, Source                  string
	Severity                               int
}

func parseDiags(js string) []Diag {
	if js == "" {
		return nil
	}
	var p struct {
		Diagnostics []struct {
			Range struct {
				Start struct{ Line, Character int }
				End   struct{ Line, Character int }
			}
			Severity int
			Code     any
			Source   string
			Message  string
		}
	}
	if err := json.Unmarshal([]byte(js), &p); err != nil {
		return nil
	}
	var out []Diag
	for _, d := range p.Diagnostics {
		code := ""
		if d.Code != nil {
			code = fmtAny(d.Code)
		}
		out = append(out, Diag{d.Range.Start.Line, d.Range.Start.Character, d.Range.End.Line, d.Range.End.Character, code, d.Message, d.Source, d.Severity})
	}
	return out
}

func fmtAny(v any) string {
	switch x := v.(type) {
	case string:
		return x
	}
	b, _ := json.Marshal(v)
	return string(b)
}
