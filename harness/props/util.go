package props

import (
	"encoding/json"
	"os"
	"path/filepath"
)

func jsonUnmarshal(b []byte, v any) error { return json.Unmarshal(b, v) }

// writeFiles materialises files (relative name -> content) under dir.
func writeFiles(dir string, files map[string]string) {
	for name, content := range files {
		p := filepath.Join(dir, name)
		_ = os.MkdirAll(filepath.Dir(p), 0o755)
		_ = os.WriteFile(p, []byte(content), 0o644)
	}
}
