package props

import (
	"context"
	"fmt"
	"os"
	"path/filepath"
	"strings"

	"go.lsp.dev/protocol"

	"github.com/juev/hledger-lsp/internal/parser"
	"github.com/juev/hledger-lsp/internal/verifx/core"
	"github.com/juev/hledger-lsp/internal/verifx/refbuf"
	"github.com/juev/hledger-lsp/internal/verifx/vtick"
	"github.com/juev/hledger-lsp/internal/verifx/wire"
)

func init() { core.Register("C06", checkC06) }

// one representative of every class the lexer, parser and handlers branch on
var c06Units = []string{"a", "e", "Z", "E", "0", "9", " ", "\t", "\n", "\r", ";", ":", "|", "(", ")", "[", "]", "@", "=", "*", "!", "\"", "-", "+", ",", ".", "/", "$", "#", "_",
	"\xc3", "é", "₽", "🍕", "{"}

var c06Fragments = []string{"2001-01-01", "2001-1", " ", "  ", "    ", "\t", "\n", "\r\n", "a:b", "a:b c", "(code", "(c)", "\"quoted", "\"q r\"", "[a:b", "[a:b]", "(a:b)", "1,2.3,4", "1e9", "1E999999999", "1e-999999999",
	"9999999999999999999999999999999999999999", "-", "+", "@", "@@", "=", "==", "; t:v, u:", ";", "|", "*", "!", "$", "(", ")", "[", "]", "\"", ":", "$5", "5 USD", "include ", "account ", "commodity ", "P ", "Y 99999", "D ", "format ", "\xff\xfe", "\x00", "\x1b", "\ufeff", "é", "🍕", "x"}

const c06K = 512 // allowed loop iterations per input byte (plus a constant for 64 bytes)

type c06Case struct {
	Text    string `json:"text"`
	Feature string `json:"feature,omitempty"`
	Line    int    `json:"line"`
	Char    int    `json:"character"`
	Size    int    `json:"size,omitempty"`
	Family  string `json:"family,omitempty"`
}

// lexer invariant: tokens cover the input left to right without overlap, stay
// inside it and end with end-of-input after at most len+2 tokens
func c06Lexer(c *core.Ctx, text string, cas c06Case) {
	defer func() {
		if p := recover(); p != nil {
			c.Violate("panic|lexer|"+firstLine(fmt.Sprint(p)), "every request returns without crashing", fmt.Sprintf("%v\ninput %q", p, firstN(text, 200)), cas)
		}
	}()
	l := parser.NewLexer(text)
	prevEnd := 0
	covered := make([]bool, len(text)+1)
	n := 0
	viol := func(class, detail string) {
		c.Violate("tokenisation|"+class, "tokens cover the input left to right without overlap, stay inside it and end with end-of-input", detail+fmt.Sprintf("\ninput %q", firstN(text, 200)), cas)
	}
	for {
		tok := l.Next()
		n++
		if n > len(text)+2 {
			viol("no progress: more tokens than bytes", fmt.Sprintf("%d tokens for %d bytes", n, len(text)))
			return
		}
		if tok.Type == parser.TokenEOF {
			break
		}
		if tok.Pos.Offset > tok.End.Offset || tok.End.Offset > len(text) || tok.Pos.Offset < 0 {
			viol("token outside the input", fmt.Sprintf("token %v %d..%d of %d", tok.Type, tok.Pos.Offset, tok.End.Offset, len(text)))
			return
		}
		if tok.Pos.Offset < prevEnd {
			viol("tokens overlap or go backwards", fmt.Sprintf("token %v starts at %d, previous ended at %d", tok.Type, tok.Pos.Offset, prevEnd))
			return
		}
		if tok.End.Offset == tok.Pos.Offset && tok.Type != parser.TokenText && tok.Type != parser.TokenIndent {
			viol("empty token of type "+tok.Type.String(), fmt.Sprintf("at %d", tok.Pos.Offset))
		}
		for i := tok.Pos.Offset; i < tok.End.Offset; i++ {
			covered[i] = true
		}
		prevEnd = tok.End.Offset
	}
	for i := 0; i < len(text); i++ {
		if !covered[i] && text[i] != ' ' && text[i] != '\t' && text[i] != '\r' && text[i] != '\n' {
			viol("non-blank byte outside every token", fmt.Sprintf("byte %d (%q)", i, text[i]))
			return
		}
	}
}

type c06Env struct {
	s   *wire.Session
	uri string
}

func newC06Env() *c06Env {
	s := wire.New()
	s.Initialize(wire.InitOpts{})
	s.Initialized()
	return &c06Env{s: s, uri: "file:///c06/doc.journal"}
}

// c06WsEnv: a server with a workspace folder whose root journal is the open
// document; every text arrives as an edit of the root journal (the workspace
// index, the include graph and the loader are updated incrementally) and is
// then saved.
type c06WsEnv struct {
	s    *wire.Session
	path string
	uri  string
}

func newC06WsEnv(c *core.Ctx) *c06WsEnv {
	dir := filepath.Join(c.Scratch, "c06ws")
	_ = os.MkdirAll(dir, 0o755)
	path := filepath.Join(dir, "main.journal")
	_ = os.WriteFile(path, []byte(""), 0o644)
	s := wire.New()
	s.Initialize(wire.InitOpts{Root: dir})
	s.Initialized()
	e := &c06WsEnv{s: s, path: path, uri: wire.URI(path)}
	_ = s.Srv.DidOpen(context.Background(), &protocol.DidOpenTextDocumentParams{TextDocument: protocol.TextDocumentItem{URI: protocol.DocumentURI(e.uri), Text: ""}})
	return e
}

// edit replaces the root journal's text, asks for a completion and saves.
func (e *c06WsEnv) edit(c *core.Ctx, text string) {
	cas := c06Case{Text: text, Feature: "workspace: didChange of the root journal + completion + didSave"}
	c.Announce(cas)
	c.Watch(cas)
	defer c.Unwatch()
	defer func() {
		if p := recover(); p != nil {
			c.Violate("panic|workspace edit|"+firstLine(fmt.Sprint(p)), "every request returns without crashing", fmt.Sprintf("%v\ninput %q", p, firstN(text, 200)), cas)
		}
	}()
	_ = e.s.Srv.DidChange(context.Background(), &protocol.DidChangeTextDocumentParams{
		TextDocument:   protocol.VersionedTextDocumentIdentifier{TextDocumentIdentifier: protocol.TextDocumentIdentifier{URI: protocol.DocumentURI(e.uri)}},
		ContentChanges: []protocol.TextDocumentContentChangeEvent{{Text: text}},
	})
	_, _ = e.s.Srv.Completion(context.Background(), &protocol.CompletionParams{TextDocumentPositionParams: protocol.TextDocumentPositionParams{TextDocument: protocol.TextDocumentIdentifier{URI: protocol.DocumentURI(e.uri)}}})
	_ = os.WriteFile(e.path, []byte(text), 0o644)
	_ = e.s.Srv.DidSave(context.Background(), &protocol.DidSaveTextDocumentParams{TextDocument: protocol.TextDocumentIdentifier{URI: protocol.DocumentURI(e.uri)}})
	c.Res.Evaluations++
}

// open stores the raw bytes (invalid UTF-8 included) through the typed API: a
// JSON transport could not carry them
func (e *c06Env) open(text string) {
	_ = e.s.Srv.DidOpen(context.Background(), &protocol.DidOpenTextDocumentParams{TextDocument: protocol.TextDocumentItem{URI: protocol.DocumentURI(e.uri), Text: text}})
}

func (e *c06Env) close() { e.s.DidClose(e.uri) }

var c06DocFeatures = []string{"formatting", "symbols", "wsymbol", "folding", "links", "semfull", "semdelta", "semrange"}
var c06PosFeatures = []string{"completion", "hover", "definition", "references", "rename", "prepareRename", "inline"}

func (e *c06Env) request(c *core.Ctx, feature, text string, line, ch int, ticksFor int, family string) {
	cas := c06Case{Text: text, Feature: feature, Line: line, Char: ch, Family: family}
	if len(text) > 400 {
		cas.Text = ""
		cas.Size = len(text)
	}
	c.Announce(cas)
	c.Watch(cas)
	vtick.Reset()
	m := wire.Msg{Op: feature, Doc: "", Line: line, Char: ch, Text: "renamed", Arg: "last"}
	var r wire.Reply
	uri := e.uri
	switch feature {
	case "wsymbol":
		r = e.s.Call("workspace/symbol", `{"query":"a"}`)
	default:
		// wire.Do builds URIs from a directory; C06 uses a fixed URI
		m.Doc = "doc.journal"
		r = e.s.Do(m, "/c06")
	}
	_ = uri
	ticks := vtick.N
	c.Unwatch()
	c.Res.Evaluations++
	if r.Panic != "" {
		c.Violate("panic|"+feature+"|"+firstLine(r.Panic), "every request returns without crashing", r.Panic+fmt.Sprintf("\ninput %q at %d:%d", firstN(text, 300), line, ch), cas)
		return
	}
	if ticksFor > 0 && ticks > int64(c06K)*int64(ticksFor+64) {
		c.Violate(fmt.Sprintf("work not proportional to the document size|%s|%s", feature, family), "time proportional to the document size",
			fmt.Sprintf("%d loop iterations for %d bytes (bound %d x (n+64))", ticks, ticksFor, c06K), cas)
	}
	if ticks > c.Res.Counters["max ticks per byte x1000 ("+feature+")"]*int64(max1(ticksFor))/1000 && ticksFor >= 1024 {
		c.Res.Counters["max ticks per byte x1000 ("+feature+")"] = ticks * 1000 / int64(ticksFor)
	}
}

func max1(n int) int {
	if n < 1 {
		return 1
	}
	return n
}

// allFeatures: open + every feature at every position (or at sample positions)
func (e *c06Env) allFeatures(c *core.Ctx, text string, everyPosition bool, family string) {
	size := 0
	if family != "" {
		size = len(text)
	}
	cas := c06Case{Text: text, Feature: "didOpen", Family: family}
	if len(text) > 400 {
		cas.Text, cas.Size = "", len(text)
	}
	c.Announce(cas)
	c.Watch(cas)
	vtick.Reset()
	e.open(text)
	ticks := vtick.N
	c.Unwatch()
	c.Res.Evaluations++
	if size > 0 && ticks > int64(c06K)*int64(size+64) {
		c.Violate("work not proportional to the document size|didOpen+diagnostics|"+family, "time proportional to the document size", fmt.Sprintf("%d loop iterations for %d bytes", ticks, size), cas)
	}
	for _, f := range c06DocFeatures {
		e.request(c, f, text, 0, 1, size, family)
	}
	buf := refbuf.New(text)
	nl := buf.LineCount()
	var positions [][2]int
	if everyPosition {
		for l := 0; l <= nl; l++ {
			for ch := 0; ch <= buf.LineLen(l)+1; ch++ {
				positions = append(positions, [2]int{l, ch})
			}
		}
	} else {
		mid := nl / 2
		positions = [][2]int{{0, 0}, {0, buf.LineLen(0)}, {mid, buf.LineLen(mid) / 2}, {nl - 1, buf.LineLen(nl - 1)}, {nl + 3, 7}, {0, 1 << 20}}
	}
	for _, p := range positions {
		for _, f := range c06PosFeatures {
			e.request(c, f, text, p[0], p[1], size, family)
		}
	}
	e.close()
}

// parseOnly: lexer invariant + parser + diagnostics + formatting
func (e *c06Env) parseOnly(c *core.Ctx, text string) {
	cas := c06Case{Text: text, Feature: "lexer/parser/diagnostics/formatting"}
	c.Announce(cas)
	c.Watch(cas)
	c06Lexer(c, text, cas)
	func() {
		defer func() {
			if p := recover(); p != nil {
				c.Violate("panic|parser|"+firstLine(fmt.Sprint(p)), "every request returns without crashing", fmt.Sprintf("%v\ninput %q", p, text), cas)
			}
		}()
		parser.Parse(text)
	}()
	c.Unwatch()
	c.Res.Evaluations++
}

func checkC06(c *core.Ctx) {
	e := newC06Env()
	ws := newC06WsEnv(c)
	if c.Replay != nil {
		var cs c06Case
		if err := jsonUnmarshal(c.Replay, &cs); err != nil {
			c.Res.InfraError = "bad replay: " + err.Error()
			return
		}
		if cs.Text == "" && cs.Size > 0 {
			c.Note("pumped case: re-run the check to regenerate (family %s, size %d)", cs.Family, cs.Size)
			return
		}
		c06Lexer(c, cs.Text, cs)
		e.allFeatures(c, cs.Text, true, cs.Family)
		return
	}
	nu := len(c06Units)
	// 1. all strings over the unit alphabet
	fullLen, parseLen := 2, 4
	if c.Thorough() {
		fullLen, parseLen = 3, 5
	}
	c.Bound("strings", fmt.Sprintf("all strings over a %d-unit alphabet: length <= %d with every feature at every position, length <= %d through lexer and parser (and, up to length %d, diagnostics + formatting)", nu, fullLen, parseLen, fullLen+1))
	var gen func(cur []int, maxLen int, visit func(string))
	gen = func(cur []int, maxLen int, visit func(string)) {
		if len(cur) > 0 {
			var b strings.Builder
			for _, i := range cur {
				b.WriteString(c06Units[i])
			}
			visit(b.String())
		}
		if len(cur) == maxLen {
			return
		}
		for i := 0; i < nu; i++ {
			gen(append(cur[:len(cur):len(cur)], i), maxLen, visit)
		}
	}
	sampled := 0
	gen(nil, parseLen, func(s string) {
		if !c.Mine() {
			return
		}
		c.Res.Nontrivial++
		e.parseOnly(c, s)
		units := 0
		for range s {
			units++
		}
		nunits := strings.Count(s, "") // placeholder to silence vet
		_ = nunits
		if lenUnits(s) <= fullLen {
			e.allFeatures(c, s, true, "")
			if sampled < 2 && lenUnits(s) == fullLen {
				sampled++
				c.Sample(map[string]any{"text": s, "features": "every feature at every position"})
			}
		} else if lenUnits(s) == fullLen+1 {
			// diagnostics + formatting only
			cas := c06Case{Text: s, Feature: "didOpen+formatting"}
			c.Announce(cas)
			c.Watch(cas)
			e.open(s)
			c.Unwatch()
			e.request(c, "formatting", s, 0, 0, 0, "")
			e.close()
		}
	})
	if c.Expired() {
		return
	}
	// 2. all sequences of fragments, every feature at every position
	fragLen := 2
	if c.Thorough() {
		fragLen = 3
	}
	nf := len(c06Fragments)
	c.Bound("fragment sequences", fmt.Sprintf("all sequences of <= %d fragments over a %d-fragment alphabet, alone and as the tail of a posting line, every feature at every position", fragLen, nf))
	var genF func(cur []int)
	genF = func(cur []int) {
		if len(cur) > 0 && c.Mine() {
			var b strings.Builder
			for _, i := range cur {
				b.WriteString(c06Fragments[i])
			}
			body := b.String()
			c.Res.Nontrivial++
			cas := c06Case{Text: body, Feature: "lexer"}
			c06Lexer(c, body, cas)
			e.allFeatures(c, body, true, "")
			ws.edit(c, body)
			e.allFeatures(c, "2001-01-01 t\n    a:b  "+body+"\n    c:d\n", len(cur) <= 2, "")
		}
		if len(cur) == fragLen || c.Expired() {
			return
		}
		for i := 0; i < nf; i++ {
			genF(append(cur[:len(cur):len(cur)], i))
		}
	}
	genF(nil)
	if c.Expired() {
		return
	}
	// 3. pumped inputs: f^n and (fg)^n as one line and as n lines, sizes doubling
	maxSize := 16 << 10
	if c.Thorough() {
		maxSize = 64 << 10
	}
	c.Bound("pumped inputs", fmt.Sprintf("for every fragment f and ordered pair (f,g): f^n and (fg)^n as one line and as n lines, sizes 1 KiB .. %d KiB doubling (pairs: largest size only in quick), features at first/middle/last/past-the-end positions; loop iterations <= %d x (n+64)", maxSize>>10, c06K))
	pump := func(unit, family string) {
		if len(unit) == 0 {
			return
		}
		for size := 1 << 10; size <= maxSize; size *= 2 {
			for _, perLine := range []bool{false, true} {
				u := unit
				if perLine {
					u = unit + "\n"
				}
				reps := size / len(u)
				if reps < 1 {
					reps = 1
				}
				text := strings.Repeat(u, reps)
				fam := family
				if perLine {
					fam += " per line"
				}
				cas := c06Case{Size: len(text), Family: fam, Feature: "lexer"}
				c.Announce(cas)
				c.Watch(cas)
				c06Lexer(c, text, cas)
				c.Unwatch()
				e.allFeatures(c, text, false, fam)
				c.Res.Nontrivial++
			}
		}
	}
	for i, f := range c06Fragments {
		if !c.MineKey(int64(i)) {
			continue
		}
		pump(f, fmt.Sprintf("%q^n", f))
		if c.Expired() {
			return
		}
	}
	// 3b. the same pumped fragment inside a line of each kind: after an indent
	// (posting position), after a date (header), after an account (amount
	// position), in a comment, each with and without an account behind it
	contexts := [][2]string{{"    ", ""}, {"    ", "a:b"}, {"    ", "  $5"}, {"2001-01-01 ", ""}, {"2001-01-01 ", " | n"}, {"    a:b  ", ""}, {"    a:b  ", " USD"}, {"    ; ", ""}, {"account ", ""}, {"include ", ""}}
	c.Bound("pumped inputs in context", fmt.Sprintf("every fragment f^n at the largest size between %d (prefix, suffix) pairs of one line", len(contexts)))
	for i, f := range c06Fragments {
		if strings.ContainsAny(f, "\n") || len(f) == 0 {
			continue
		}
		for k, cx := range contexts {
			if !c.MineKey(int64(i*len(contexts) + k + 3)) {
				continue
			}
			text := cx[0] + strings.Repeat(f, max1(maxSize/len(f))) + cx[1] + "\n"
			fam := fmt.Sprintf("%q + %q^n + %q", cx[0], f, cx[1])
			cas := c06Case{Size: len(text), Family: fam, Feature: "lexer"}
			c.Announce(cas)
			c.Watch(cas)
			c06Lexer(c, text, cas)
			c.Unwatch()
			e.allFeatures(c, text, false, fam)
			c.Res.Nontrivial++
			if c.Expired() {
				return
			}
		}
	}
	for i, f := range c06Fragments {
		for k, g := range c06Fragments {
			if !c.MineKey(int64(i*nf + k + 7)) {
				continue
			}
			if !c.Thorough() && (i+k)%4 != 0 {
				continue
			}
			save := maxSize
			if !c.Thorough() {
				// quick: pairs at the largest size only
				pumpOne := func(unit, family string) {
					for _, perLine := range []bool{false, true} {
						u := unit
						if perLine {
							u += "\n"
						}
						text := strings.Repeat(u, max1(maxSize/len(u)))
						fam := family
						if perLine {
							fam += " per line"
						}
						cas := c06Case{Size: len(text), Family: fam, Feature: "lexer"}
						c.Announce(cas)
						c.Watch(cas)
						c06Lexer(c, text, cas)
						c.Unwatch()
						e.allFeatures(c, text, false, fam)
						c.Res.Nontrivial++
					}
				}
				pumpOne(f+g, fmt.Sprintf("(%q %q)^n", f, g))
			} else {
				pump(f+g, fmt.Sprintf("(%q %q)^n", f, g))
			}
			maxSize = save
			if c.Expired() {
				return
			}
		}
	}
}

func lenUnits(s string) int {
	// number of alphabet units: every unit is one rune except the truncated lead byte
	n := 0
	for i := 0; i < len(s); {
		switch {
		case s[i] < 0x80:
			i++
		case strings.HasPrefix(s[i:], "é"):
			i += len("é")
		case strings.HasPrefix(s[i:], "₽"):
			i += len("₽")
		case strings.HasPrefix(s[i:], "🍕"):
			i += len("🍕")
		default:
			i++
		}
		n++
	}
	return n
}
