package props

import (
	"fmt"
	"os"
	"path/filepath"
	"sort"
	"strings"

	"github.com/juev/hledger-lsp/internal/verifx/core"
	"github.com/juev/hledger-lsp/internal/verifx/wire"
)

func init() { core.Register("C18", checkC18) }

// declared accounts / commodities (when declared at all)
var c18DeclAccounts = []string{"bank:main", "cash:wallet", "foo:bar"}
var c18DeclCommodities = []string{"EUR"}

type c18Account struct {
	Name    string
	Class   string
	Covered bool // covered when the declarations above are visible
}

var c18Accounts = []c18Account{
	{"bank:main", "declared", true},
	{"bank:main:checking", "child of declared", true},
	{"bank:main:checking:joint", "grandchild of declared", true},
	{"cash:wallet:coins", "child of declared", true},
	{"cash:box", "sibling of declared", false},
	{"bank:mainstreet", "shares a prefix without colon boundary", false},
	{"foo:barn:x", "shares a prefix without colon boundary", false},
	{"Assets:x", "standard category (mixed case)", true},
	{"INCOME:y", "standard category (upper case)", true},
	{"expenses:z", "standard category", true},
	{"revenues:r", "standard category", true},
	{"liabilities:l", "standard category", true},
	{"equity:e", "standard category", true},
	{"zzz:cash", "undeclared", false},
	{"assetsx:q", "looks like a category but is not", false},
}

type c18Scenario struct {
	AccDecl   string `json:"accounts_declared_in"`    // cur inc sib none
	CommDecl  string `json:"commodities_declared_in"` // cur inc sib none
	Root      bool   `json:"workspace_root"`
	SetAcc    bool   `json:"undeclaredAccounts"`
	SetComm   bool   `json:"undeclaredCommodities"`
	SetUnbal  bool   `json:"unbalancedTransactions"`
	Postings  []int  `json:"account_indexes"` // accounts used by the postings of transaction 1
	CommShape int    `json:"commodity_shape"`
	// Before: another document was analysed first whose own include tree (a file
	// outside every other tree) declares the accounts and commodities this one uses
	Before bool `json:"other_document_analysed_first"`
	// Via: how the final texts were reached. "" = documents opened with them;
	// "edit-cur" = the current file was first open (and analysed) without its
	// declaration lines, then changed to the final text; "edit-sib" = the same for
	// the sibling file, after which the current file is analysed again
	Via string `json:"via,omitempty"`
	// Outside: the workspace's root journal does not include the current file (it
	// includes the sibling only); a workspace update on open/change then leaves
	// the workspace, and the caches it hands out, untouched
	Outside bool `json:"current_file_outside_the_root_tree,omitempty"`
}

// c18WithoutDeclarations replaces the declarations by declarations of other names (same line count).
func c18WithoutDeclarations(text string) string {
	lines := strings.Split(text, "\n")
	for i, l := range lines {
		// other declarations instead of none: a cached set stays non-empty
		if strings.HasPrefix(l, "account ") {
			lines[i] = fmt.Sprintf("account elsewhere:e%d", i)
		} else if strings.HasPrefix(l, "commodity ") {
			lines[i] = "commodity 1.000,00 ZZZ"
		}
	}
	return strings.Join(lines, "\n")
}

// commodity shapes of transaction 2: list of (amount commodity, cost commodity, assertion commodity) per posting
var c18CommShapes = [][][3]string{
	{{"EUR", "", ""}, {"EUR", "", ""}},                        // declared only
	{{"USD", "", ""}, {"USD", "", ""}},                        // undeclared twice -> one warning
	{{"EUR", "USD", ""}, {"USD", "", ""}},                     // undeclared first in cost position
	{{"EUR", "", "CHF"}, {"EUR", "", ""}},                     // undeclared in assertion position
	{{"USD", "CHF", ""}, {"EUR", "", "CHF"}},                  // two undeclared symbols
	{{"EUR", "", ""}, {"", "", ""}},                           // amount-less second posting
	{{"USD", "EUR", "USD"}, {"CHF", "", ""}, {"EUR", "", ""}}, // three postings
	{{"EUR", "", ""}, {"", "", "CHF"}},                        // undeclared only in the assertion of an amount-less posting
	{{"USD", "", ""}, {"", "", "USD"}},                        // the same undeclared symbol as amount and in an amount-less assertion: once
}

type c18Expect struct {
	Code string
	Line int
}

func (sc c18Scenario) declText(which string) string {
	var b strings.Builder
	if sc.AccDecl == which {
		for _, a := range c18DeclAccounts {
			b.WriteString("account " + a + "\n")
		}
	}
	if sc.CommDecl == which {
		for _, cm := range c18DeclCommodities {
			b.WriteString("commodity 1.000,00 " + cm + "\n")
		}
	}
	return b.String()
}

// files renders the scenario: main (workspace root) includes cur and sib; cur includes inc.
func (sc c18Scenario) files() (cur string, files map[string]string, expect []c18Expect) {
	var b strings.Builder
	b.WriteString("include inc.journal\n")
	b.WriteString(sc.declText("cur"))
	b.WriteString("\n")
	line := strings.Count(b.String(), "\n")
	vis := func(where string) bool {
		switch where {
		case "cur", "inc":
			return true
		case "sib":
			// "drop-sib": the root journal stops including the sibling
			return sc.Root && sc.Via != "drop-sib"
		}
		return false
	}
	accVisible := vis(sc.AccDecl)
	commVisible := vis(sc.CommDecl)
	// transaction 1: accounts
	b.WriteString("2001-01-01 accounts\n")
	line++
	n := len(sc.Postings)
	for i, ai := range sc.Postings {
		a := c18Accounts[ai]
		amt := "  1 EUR"
		if i == n-1 {
			amt = fmt.Sprintf("  -%d EUR", n-1)
			if n == 1 {
				amt = "  0 EUR"
			}
		}
		b.WriteString("    " + a.Name + amt + "\n")
		if accVisible && sc.SetAcc && !a.Covered {
			expect = append(expect, c18Expect{"UNDECLARED_ACCOUNT", line})
		}
		line++
	}
	b.WriteString("\n")
	line++
	// transaction 2: commodities (accounts under a standard category so that they never warn)
	b.WriteString("2001-01-02 commodities\n")
	line++
	seen := map[string]bool{}
	declared := map[string]bool{}
	if commVisible {
		for _, cm := range c18DeclCommodities {
			declared[cm] = true
		}
	}
	for i, sh := range c18CommShapes[sc.CommShape] {
		l := fmt.Sprintf("    expenses:c%d", i)
		if sh[0] != "" {
			l += "  1 " + sh[0]
			if sh[1] != "" {
				l += " @ 2 " + sh[1]
			}
			if sh[2] != "" {
				l += " = 5 " + sh[2]
			}
		} else if sh[2] != "" {
			l += "  = 5 " + sh[2]
		}
		b.WriteString(l + "\n")
		for _, cm := range sh {
			if cm != "" && commVisible && sc.SetComm && !declared[cm] && !seen[cm] {
				seen[cm] = true
				expect = append(expect, c18Expect{"UNDECLARED_COMMODITY", line})
			}
		}
		line++
	}
	cur = b.String()
	files = map[string]string{
		"main.journal": map[bool]string{false: "include cur.journal\ninclude sib.journal\n", true: "include sib.journal\n"}[sc.Outside],
		"cur.journal":  cur,
		"inc.journal":  sc.declText("inc") + "\n2001-02-01 inc\n    expenses:i  1 EUR\n    assets:i  -1 EUR\n",
		"sib.journal":  sc.declText("sib") + "\n2001-03-01 sib\n    expenses:s  1 EUR\n    assets:s  -1 EUR\n",
	}
	return
}

func (sc c18Scenario) features() string {
	root := "no workspace"
	if sc.Root {
		root = "workspace root"
	}
	before := ""
	if sc.Before {
		before = ", after another document whose include tree declares the names"
	}
	switch sc.Via {
	case "edit-cur":
		before += ", declarations added to the current file by an edit"
	case "edit-sib":
		before += ", declarations added to the sibling file by an edit"
	case "drop-sib":
		before += ", sibling dropped from the root journal by an edit after a first analysis"
	}
	if sc.Outside {
		before += ", current file outside the root journal's tree"
	}
	return fmt.Sprintf("accounts declared in %s, commodities declared in %s, %s%s", sc.AccDecl, sc.CommDecl, root, before)
}

func c18Run(c *core.Ctx, dir string, sc c18Scenario) {
	cur, files, expect := sc.files()
	_ = os.RemoveAll(dir)
	_ = os.MkdirAll(dir, 0o755)
	writeFiles(dir, files)
	// with an edit history the saved files are the earlier versions
	switch sc.Via {
	case "edit-cur":
		writeFiles(dir, map[string]string{"cur.journal": c18WithoutDeclarations(cur)})
	case "edit-sib":
		writeFiles(dir, map[string]string{"sib.journal": c18WithoutDeclarations(files["sib.journal"])})
	}
	s := wire.New()
	root := ""
	if sc.Root {
		root = dir
	}
	s.Initialize(wire.InitOpts{Root: root, Options: fmt.Sprintf(`{"diagnostics":{"undeclaredAccounts":%v,"undeclaredCommodities":%v,"unbalancedTransactions":%v}}`, sc.SetAcc, sc.SetComm, sc.SetUnbal)})
	s.Initialized()
	uri := wire.URI(filepath.Join(dir, "cur.journal"))
	if sc.Before {
		var ext strings.Builder
		for _, a := range c18Accounts {
			ext.WriteString("account " + a.Name + "\n")
		}
		for _, cm := range []string{"EUR", "USD", "CHF"} {
			ext.WriteString("commodity 1.000,00 " + cm + "\n")
		}
		other := "include ext.journal\n\n2001-04-01 other\n    zzz:cash  1 USD\n    assetsx:q  -1 USD\n"
		writeFiles(dir, map[string]string{"ext.journal": ext.String(), "other.journal": other})
		ou := wire.URI(filepath.Join(dir, "other.journal"))
		s.DidOpen(ou, other)
	}
	switch sc.Via {
	case "edit-cur":
		s.DidOpen(uri, c18WithoutDeclarations(cur))
		s.DidChangeFull(uri, cur, 2)
	case "edit-sib":
		su := wire.URI(filepath.Join(dir, "sib.journal"))
		s.DidOpen(su, c18WithoutDeclarations(files["sib.journal"]))
		s.DidChangeFull(su, c18WithoutDeclarations(files["sib.journal"]), 2)
		s.DidOpen(uri, cur)
		s.DidChangeFull(su, files["sib.journal"], 2)
		s.DidChangeFull(uri, cur, 2)
	case "drop-sib":
		// the current file is analysed while the sibling still belongs to the
		// workspace; then the root journal drops its include of the sibling
		s.DidOpen(uri, cur)
		mu := wire.URI(filepath.Join(dir, "main.journal"))
		s.DidOpen(mu, files["main.journal"])
		s.DidChangeFull(mu, strings.Replace(files["main.journal"], "include sib.journal\n", "; sib.journal is not included any more\n", 1), 2)
		s.DidChangeFull(uri, cur, 2)
	default:
		s.DidOpen(uri, cur)
	}
	raw := s.Client.Last(uri)
	c.Res.Evaluations++
	if sc.AccDecl == "inc" || sc.AccDecl == "sib" || sc.CommDecl == "inc" || sc.CommDecl == "sib" || !sc.SetAcc || !sc.SetComm {
		c.Res.Nontrivial++
	}
	var got []string
	unbal := 0
	for _, d := range parseDiags(raw) {
		switch d.Code {
		case "UNDECLARED_ACCOUNT", "UNDECLARED_COMMODITY":
			got = append(got, fmt.Sprintf("%s@%d", d.Code, d.StartLine))
		case "UNBALANCED", "MULTIPLE_INFERRED":
			unbal++
		}
	}
	var want []string
	for _, e := range expect {
		want = append(want, fmt.Sprintf("%s@%d", e.Code, e.Line))
	}
	sort.Strings(got)
	sort.Strings(want)
	if strings.Join(got, ",") == strings.Join(want, ",") {
		return
	}
	// classify per code
	for _, code := range []string{"UNDECLARED_ACCOUNT", "UNDECLARED_COMMODITY"} {
		g, w := filterPrefix(got, code), filterPrefix(want, code)
		if strings.Join(g, ",") == strings.Join(w, ",") {
			continue
		}
		class := "wrong lines"
		switch {
		case len(g) == 0:
			class = "no warning at all"
		case len(w) == 0:
			class = "warnings although none are due"
		case len(g) < len(w):
			class = "warnings missing"
		case len(g) > len(w):
			class = "spurious warnings"
		}
		// which account classes are affected
		detail := ""
		if code == "UNDECLARED_ACCOUNT" {
			lines := strings.Split(cur, "\n")
			diff := symDiff(g, w)
			var classes []string
			for _, d := range diff {
				var ln int
				fmt.Sscanf(d[strings.Index(d, "@")+1:], "%d", &ln)
				if ln < len(lines) {
					name := strings.Fields(lines[ln])[0]
					for _, a := range c18Accounts {
						if a.Name == name {
							classes = append(classes, a.Class)
						}
					}
				}
			}
			sort.Strings(classes)
			detail = strings.Join(uniq(classes), "; ")
		}
		setting := "settings on"
		if (code == "UNDECLARED_ACCOUNT" && !sc.SetAcc) || (code == "UNDECLARED_COMMODITY" && !sc.SetComm) {
			setting = "own setting off"
		}
		c.Violate(fmt.Sprintf("%s|%s|%s|%s|%s", code, class, detail, sc.features(), setting), "undeclared warnings are exact: "+code,
			fmt.Sprintf("expected %v\ngot %v\n--- cur.journal:\n%s\n--- published: %s", w, g, cur, raw), sc)
	}
}

func filterPrefix(s []string, p string) []string {
	var out []string
	for _, x := range s {
		if strings.HasPrefix(x, p) {
			out = append(out, x)
		}
	}
	return out
}

func symDiff(a, b []string) []string {
	m := map[string]int{}
	for _, x := range a {
		m[x]++
	}
	for _, x := range b {
		m[x]--
	}
	var out []string
	for k, v := range m {
		if v != 0 {
			out = append(out, k)
		}
	}
	sort.Strings(out)
	return out
}

func checkC18(c *core.Ctx) {
	dir := filepath.Join(c.Scratch, "c18")
	if c.Replay != nil {
		var sc c18Scenario
		if err := jsonUnmarshal(c.Replay, &sc); err != nil {
			c.Res.InfraError = "bad replay: " + err.Error()
			return
		}
		c18Run(c, dir, sc)
		return
	}
	wheres := []string{"cur", "inc", "sib", "none"}
	// posting sets: every single account class alone, every pair (thorough: every triple), and all together
	var postingSets [][]int
	n := len(c18Accounts)
	for i := 0; i < n; i++ {
		postingSets = append(postingSets, []int{i, 9}) // with a covered account
		for j := i + 1; j < n; j++ {
			postingSets = append(postingSets, []int{i, j})
			if c.Thorough() {
				for k := j + 1; k < n; k++ {
					postingSets = append(postingSets, []int{i, j, k})
				}
			}
		}
	}
	all := make([]int, n)
	for i := range all {
		all[i] = i
	}
	postingSets = append(postingSets, all, []int{13, 13}, []int{5})
	c.Bound("scenarios", fmt.Sprintf("declarations of accounts x commodities in {current, included, sibling workspace file, nowhere} (16) x 8 settings combinations x workspace root on/off x %d posting sets over %d account classes x %d commodity shapes (amount / cost / assertion position, amount-less postings with assertions, once and twice); with all settings on also after another document (own include tree declaring everything) was analysed first", len(postingSets), n, len(c18CommShapes)))
	sampled := 0
	for _, ad := range wheres {
		for _, cd := range wheres {
			for _, root := range []bool{false, true} {
				for mask := 0; mask < 8; mask++ {
					for pi, ps := range postingSets {
						// commodity shapes rotate with the posting set; the full product on the first sets
						shapes := []int{pi % len(c18CommShapes)}
						if pi < 3 {
							shapes = []int{0, 1, 2, 3, 4, 5, 6, 7, 8}
						}
						for _, sh := range shapes {
							if !c.Mine() {
								continue
							}
							sc := c18Scenario{AccDecl: ad, CommDecl: cd, Root: root, SetAcc: mask&1 != 0, SetComm: mask&2 != 0, SetUnbal: mask&4 != 0, Postings: ps, CommShape: sh}
							c18Run(c, dir, sc)
							if mask == 7 || c.Thorough() {
								// the same final texts reached by an edit that adds the declarations
								if ad == "cur" || cd == "cur" {
									e := sc
									e.Via = "edit-cur"
									c18Run(c, dir, e)
								}
								if root && (ad == "sib" || cd == "sib") {
									e := sc
									e.Via = "edit-sib"
									c18Run(c, dir, e)
									e.Via = "drop-sib"
									c18Run(c, dir, e)
								}
							}
							if mask == 7 || c.Thorough() {
								// the same scenario in a server that analysed another document first
								sc.Before = true
								c18Run(c, dir, sc)
								if root {
									// ... and when neither of the two is part of the root's tree
									o := sc
									o.Outside = true
									c18Run(c, dir, o)
								}
							}
							if sampled < 2 && ad == "inc" && cd == "sib" && root && mask == 7 {
								sampled++
								cur, _, exp := sc.files()
								c.Sample(map[string]any{"scenario": sc, "cur.journal": cur, "expected": exp})
							}
						}
					}
				}
				if c.Expired() {
					return
				}
			}
		}
	}
}
