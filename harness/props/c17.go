package props

import (
	"encoding/json"
	"fmt"
	"sort"
	"strings"

	"github.com/juev/hledger-lsp/internal/server"
	"github.com/juev/hledger-lsp/internal/verifx/bfs"
	"github.com/juev/hledger-lsp/internal/verifx/core"
	"github.com/juev/hledger-lsp/internal/verifx/gmodel"
	"github.com/juev/hledger-lsp/internal/verifx/refbuf"
	"github.com/juev/hledger-lsp/internal/verifx/wire"
)

func init() { core.Register("C17", checkC17) }

type semTok struct {
	Line, Col, Len, Type, Mods int
}

func decodeTokens(data []int) ([]semTok, string) {
	if len(data)%5 != 0 {
		return nil, fmt.Sprintf("data length %d is not a multiple of 5", len(data))
	}
	var out []semTok
	line, col := 0, 0
	for i := 0; i < len(data); i += 5 {
		if data[i] > 0 {
			line += data[i]
			col = data[i+1]
		} else {
			col += data[i+1]
		}
		out = append(out, semTok{line, col, data[i+2], data[i+3], data[i+4]})
	}
	return out, ""
}

var semLegend = []string{"account", "commodity", "payee", "date", "amount", "tag", "directive", "code", "status", "comment", "string", "operator", "tagValue"}

// model span kinds acceptable for each token type
var semKinds = map[string][]string{
	"account":   {"account"},
	"commodity": {"commodity"},
	"payee":     {"payee", "description"},
	"date":      {"date", "date2"},
	"amount":    {"number", "digits"},
	"tag":       {"tagname"},
	"tagValue":  {"tagvalue"},
	"directive": {"directive"},
	"code":      {"code"},
	"status":    {"status"},
	"comment":   {"comment"},
	"string":    {"note", "description", "payee", "format", "includepath", "account", "text"},
	"operator":  {"operator"},
}

type c17Case struct {
	Part string  `json:"part"`
	Devs string  `json:"deviations,omitempty"`
	Text string  `json:"text,omitempty"`
	Ops  []c17Op `json:"ops,omitempty"`
}

func semFull(s *wire.Session, uri string) ([]int, string, string) {
	r := s.Call("textDocument/semanticTokens/full", wire.Doc(uri))
	var v struct {
		ResultID string `json:"resultId"`
		Data     []int  `json:"data"`
	}
	if err := json.Unmarshal([]byte(r.Result), &v); err != nil {
		return nil, "", "undecodable: " + r.Result + r.Err + r.Panic
	}
	return v.Data, v.ResultID, ""
}

// geometry of one document; model may be nil (arbitrary text: structural clauses only)
func c17Geometry(c *core.Ctx, s *wire.Session, text string, rd *gmodel.Rendered, cause string, report func(clause, class, detail string)) {
	uri := "file:///c17/doc.journal"
	s.DidOpen(uri, text)
	defer s.DidClose(uri)
	data, _, bad := semFull(s, uri)
	c.Res.Evaluations++
	if bad != "" {
		report("semantic tokens are returned", "undecodable result", bad)
		return
	}
	toks, msg := decodeTokens(data)
	if msg != "" {
		report("tokens are well-formed", msg, msg)
		return
	}
	buf := refbuf.New(text)
	for i, t := range toks {
		if t.Line >= buf.LineCount() {
			report("each token lies inside its line", "line outside the document", fmt.Sprintf("token %+v", t))
			return
		}
		if t.Len <= 0 {
			report("each token lies inside its line", "empty token", fmt.Sprintf("token %+v on %q", t, buf.LineText(t.Line)))
		}
		if t.Col+t.Len > buf.LineLen(t.Line) {
			report("each token lies inside its line", "token runs past the end of its line ("+semName(t.Type)+")", fmt.Sprintf("token %+v on %q (length %d)", t, buf.LineText(t.Line), buf.LineLen(t.Line)))
		}
		if t.Type < 0 || t.Type >= len(semLegend) {
			report("token type is in the advertised legend", "type outside the legend", fmt.Sprintf("token %+v", t))
		}
		if t.Mods >= 1<<2 {
			report("token modifiers are in the advertised legend", "modifier outside the legend", fmt.Sprintf("token %+v", t))
		}
		if i > 0 {
			p := toks[i-1]
			if t.Line < p.Line || (t.Line == p.Line && t.Col <= p.Col) {
				report("tokens are in document order", "not strictly increasing ("+semName(p.Type)+" then "+semName(t.Type)+")", fmt.Sprintf("%+v then %+v on %q", p, t, buf.LineText(t.Line)))
			} else if t.Line == p.Line && p.Col+p.Len > t.Col {
				report("tokens do not overlap", "overlap ("+semName(p.Type)+" into "+semName(t.Type)+")", fmt.Sprintf("%+v then %+v on %q", p, t, buf.LineText(t.Line)))
			}
		}
	}
	// range requests: every line interval
	nl := buf.LineCount()
	if nl <= 12 {
		for i := 0; i < nl; i++ {
			for j := i; j < nl; j++ {
				r := s.Call("textDocument/semanticTokens/range", fmt.Sprintf(`{"textDocument":{"uri":%s},"range":{"start":{"line":%d,"character":0},"end":{"line":%d,"character":0}}}`, wire.Q(uri), i, j))
				var v struct{ Data []int }
				_ = json.Unmarshal([]byte(r.Result), &v)
				got, _ := decodeTokens(v.Data)
				var want []semTok
				for _, t := range toks {
					if t.Line >= i && t.Line <= j {
						want = append(want, t)
					}
				}
				if fmt.Sprint(got) != fmt.Sprint(want) {
					report("a range request returns the full result restricted to the lines", "range result differs", fmt.Sprintf("lines %d..%d: got %v want %v", i, j, got, want))
					i, j = nl, nl
				}
			}
		}
	}
	if rd == nil {
		return
	}
	// each token equals the span of exactly one lexeme of its kind
	used := map[int]bool{}
	for _, t := range toks {
		if t.Type < 0 || t.Type >= len(semLegend) {
			continue
		}
		name := semLegend[t.Type]
		found := false
		for si, sp := range rd.Spans {
			if sp.Line != t.Line || sp.U0 != t.Col || sp.U1-sp.U0 != t.Len {
				continue
			}
			for _, k := range semKinds[name] {
				if sp.Kind == k {
					found = true
					used[si] = true
				}
			}
		}
		if !found {
			r := lspRange{lspPos{t.Line, t.Col}, lspPos{t.Line, t.Col + t.Len}}
			report("each token covers exactly one lexeme of its kind", name+" token "+rangeClass(rd, r), fmt.Sprintf("%s token %+v covers %q on %q", name, t, sliceU16(buf.LineText(t.Line), t.Col, t.Col+t.Len), buf.LineText(t.Line)))
		}
	}
	// every model lexeme of a mapped kind has its token
	for si, sp := range rd.Spans {
		mapped := false
		switch sp.Kind {
		case "account", "commodity", "date", "date2", "code", "status", "operator", "directive", "tagname", "payee", "description", "note":
			mapped = true
		case "tagvalue":
			mapped = sp.Text != ""
		case "comment":
			mapped = !strings.Contains(sp.Text, ":") // comments with tags are split into tag tokens
		}
		if sp.Role == "format" || (sp.Kind == "description" && sp.Text == "") {
			mapped = false // format strings of commodity / D directives have no lexeme-level contract
		}
		if !mapped || used[si] {
			continue
		}
		// a span shadowed by an identical-extent span of another accepted kind is fine
		covered := false
		for sj := range rd.Spans {
			if used[sj] && rd.Spans[sj].Line == sp.Line && rd.Spans[sj].U0 == sp.U0 && rd.Spans[sj].U1 == sp.U1 {
				covered = true
			}
		}
		if !covered {
			report("every lexeme of a mapped kind has its token", "no token for "+spanName(sp), fmt.Sprintf("%s %q at %d:%d-%d has no token; tokens on that line: %v", sp.Kind, sp.Text, sp.Line, sp.U0, sp.U1, lineToks(toks, sp.Line)))
		}
	}
}

func spanName(sp gmodel.Span) string {
	if sp.Role != "" && sp.Role != "posting" && sp.Role != "header" && sp.Role != "amount" {
		return sp.Role + " " + sp.Kind
	}
	return sp.Kind
}

func lineToks(toks []semTok, line int) []semTok {
	var out []semTok
	for _, t := range toks {
		if t.Line == line {
			out = append(out, t)
		}
	}
	return out
}

func semName(t int) string {
	if t >= 0 && t < len(semLegend) {
		return semLegend[t]
	}
	return fmt.Sprint(t)
}

func sliceU16(s string, a, b int) string {
	u := refbuf.New(s)
	if a < 0 {
		a = 0
	}
	if b > len(u.U) {
		b = len(u.U)
	}
	if a > b {
		return ""
	}
	return (&refbuf.Buffer{U: u.U[a:b]}).String()
}

// ---- histories -------------------------------------------------------------

var c17Variants = []string{
	"2001-01-01 shop\n    expenses:food  $5\n    assets:cash\n",
	"2001-01-01 shop  ; t:v\n    expenses:food  $5 @ 2 EUR\n    assets:cash\n\n2001-01-02 * (7) cafe | note\n    a:b  1 \"x y\"\n    c:d\n",
	"",
	// the text above without its last transaction: the tokens are a proper prefix
	"2001-01-01 shop  ; t:v\n    expenses:food  $5 @ 2 EUR\n    assets:cash\n",
	// the first text with its last posting twice: the added tokens end like the old array ends
	"2001-01-01 shop\n    expenses:food  $5\n    assets:cash\n    assets:cash\n",
}

type c17Op struct {
	Kind string `json:"kind"` // edit full delta range close reopen
	Doc  int    `json:"doc"`
	Arg  int    `json:"arg"` // variant for edit; id kind for delta: 0 current, 1 the one before, 2 never issued, 3 empty
	Srv  int    `json:"server"`
}

func (o c17Op) String() string {
	switch o.Kind {
	case "edit":
		return fmt.Sprintf("edit(d%d,v%d)", o.Doc, o.Arg)
	case "delta":
		return fmt.Sprintf("delta(d%d,%s)", o.Doc, []string{"current", "previous", "unknown", "empty"}[o.Arg])
	}
	return fmt.Sprintf("%s(d%d)", o.Kind, o.Doc)
}

func c17Ops() []c17Op {
	var ops []c17Op
	for d := 0; d < 2; d++ {
		for v := range c17Variants {
			ops = append(ops, c17Op{Kind: "edit", Doc: d, Arg: v})
		}
		ops = append(ops, c17Op{Kind: "full", Doc: d})
		for a := 0; a < 4; a++ {
			ops = append(ops, c17Op{Kind: "delta", Doc: d, Arg: a})
		}
		ops = append(ops, c17Op{Kind: "range", Doc: d}, c17Op{Kind: "close", Doc: d}, c17Op{Kind: "reopen", Doc: d})
	}
	// a second server in the same process touches the shared token cache
	ops = append(ops, c17Op{Kind: "otherfull", Doc: 0})
	return ops
}

type c17Client struct {
	data   []int
	id     string
	prevID string
	hasID  bool
}

// adopt takes over a result. A response without a result id makes the client
// forget every id it knew (it must ask for a full result next time; clients that
// keep using an id after such a response are outside the property).
func (cl *c17Client) adopt(data []int, id string) {
	if id == "" {
		cl.prevID, cl.data, cl.id, cl.hasID = "", data, "", false
		return
	}
	cl.prevID, cl.data, cl.id, cl.hasID = cl.id, data, id, true
}

func c17Run(c *core.Ctx, ops []c17Op) (key string, ok bool) {
	server.VerifxResetGlobals()
	s := wire.New()
	s.Initialize(wire.InitOpts{})
	other := wire.New()
	other.Initialize(wire.InitOpts{})
	uris := []string{"file:///c17/a.journal", "file:///c17/b.journal"}
	text := []int{0, 0}
	open := []bool{true, true}
	for d := 0; d < 2; d++ {
		s.DidOpen(uris[d], c17Variants[0])
	}
	other.DidOpen(uris[0], c17Variants[1])
	clients := make([]c17Client, 2)
	deltaEdits := false
	stateKey := func() string {
		var ks []string
		for d := 0; d < 2; d++ {
			ks = append(ks, fmt.Sprintf("d%d text=%d open=%v client=%v id=%v", d, text[d], open[d], clients[d].data, clients[d].hasID))
		}
		// result ids are process-global counters: the key keeps only which ids are current/previous, not their values
		return strings.Join(ks, ";") + "\n" + c17CacheShape()
	}
	key = ""
	for i, op := range ops {
		last := i == len(ops)-1
		u := uris[op.Doc]
		cl := &clients[op.Doc]
		check := false
		checkRange, rangeResult := false, ""
		switch op.Kind {
		case "edit":
			if !open[op.Doc] || text[op.Doc] == op.Arg {
				return "", false
			}
			text[op.Doc] = op.Arg
			s.DidChangeFull(u, c17Variants[op.Arg], 2)
		case "close":
			if !open[op.Doc] {
				return "", false
			}
			open[op.Doc] = false
			s.DidClose(u)
		case "reopen":
			if open[op.Doc] {
				return "", false
			}
			open[op.Doc] = true
			s.DidOpen(u, c17Variants[text[op.Doc]])
		case "otherfull":
			semFull(other, uris[0])
		case "range":
			if !open[op.Doc] {
				return "", false
			}
			rr := s.Call("textDocument/semanticTokens/range", fmt.Sprintf(`{"textDocument":{"uri":%s},"range":{"start":{"line":0,"character":0},"end":{"line":1,"character":0}}}`, wire.Q(u)))
			if !rr.OK() && last {
				c.Violate("history|range request fails|"+firstLine(rr.Err+rr.Panic), "every request of a history is answered",
					fmt.Sprintf("after %v the range request failed: %s %s", ops, rr.Err, firstN(rr.Panic, 1500)), c17Case{Part: "history", Ops: ops})
			}
			rangeResult, checkRange = rr.Result, true
		case "full":
			if !open[op.Doc] {
				return "", false
			}
			data, id, bad := semFull(s, u)
			if bad != "" {
				if last {
					c.Violate("history|full request fails|"+firstLine(bad), "every request of a history is answered",
						fmt.Sprintf("after %v the full request failed: %s", ops, firstN(bad, 1500)), c17Case{Part: "history", Ops: ops})
				}
				return "", false
			}
			cl.adopt(data, id)
			check = true
		case "delta":
			if !open[op.Doc] {
				return "", false
			}
			prev := ""
			switch op.Arg {
			case 0:
				if !cl.hasID {
					return "", false
				}
				prev = cl.id
			case 1:
				if cl.prevID == "" {
					return "", false
				}
				prev = cl.prevID
			case 2:
				prev = "never-issued"
			case 3:
				prev = ""
			}
			r := s.Call("textDocument/semanticTokens/full/delta", `{"textDocument":{"uri":`+wire.Q(u)+`},"previousResultId":`+wire.Q(prev)+`}`)
			var v struct {
				ResultID string `json:"resultId"`
				Data     *[]int `json:"data"`
				Edits    *[]struct {
					Start       int   `json:"start"`
					DeleteCount int   `json:"deleteCount"`
					Data        []int `json:"data"`
				} `json:"edits"`
			}
			if !r.OK() {
				if last {
					c.Violate("history|delta request fails|"+firstLine(r.Err+r.Panic), "every request of a history is answered",
						fmt.Sprintf("after %v the delta request failed: %s %s", ops, r.Err, firstN(r.Panic, 1500)), c17Case{Part: "history", Ops: ops})
				}
				return "", false
			}
			if err := json.Unmarshal([]byte(r.Result), &v); err != nil {
				return "", false
			}
			switch {
			case v.Edits != nil:
				// a conforming client applies the edits to the array it holds for previousResultId;
				// it only holds the array of its current id
				if op.Arg != 0 {
					// server answered with edits against an id the client no longer (or never) holds
					if last {
						c.Violate("history|delta edits returned for a result id the client does not hold|"+[]string{"current", "previous", "unknown", "empty"}[op.Arg], "deltas reconstruct the full result",
							fmt.Sprintf("after %v the server answered previousResultId=%q with edits", ops, prev), c17Case{Part: "history", Ops: ops})
					}
					return "", false
				}
				deltaEdits = true
				arr := append([]int(nil), cl.data...)
				for _, e := range *v.Edits {
					if e.Start > len(arr) || e.Start+e.DeleteCount > len(arr) {
						if last {
							c.Violate("history|delta edit outside the client's array", "deltas reconstruct the full result", fmt.Sprintf("after %v: edit %+v on array of %d", ops, e, len(arr)), c17Case{Part: "history", Ops: ops})
						}
						return "", false
					}
					arr = append(append(append([]int(nil), arr[:e.Start]...), e.Data...), arr[e.Start+e.DeleteCount:]...)
				}
				cl.adopt(arr, v.ResultID)
			case v.Data != nil:
				cl.adopt(*v.Data, v.ResultID)
			default:
				cl.adopt(nil, v.ResultID)
			}
			check = true
		}
		if last {
			// the state key is taken before the oracle's probes (they reset the process-global token cache)
			key = stateKey()
			c.Res.Evaluations++
			if deltaEdits {
				c.Res.Nontrivial++
			}
			if checkRange {
				// the range result is the full result of the current text (fresh server) restricted to the lines
				var v struct{ Data []int }
				_ = json.Unmarshal([]byte(rangeResult), &v)
				got, _ := decodeTokens(v.Data)
				server.VerifxResetGlobals()
				f := wire.New()
				f.Initialize(wire.InitOpts{})
				f.DidOpen(u, c17Variants[text[op.Doc]])
				full, _, _ := semFull(f, u)
				ftoks, _ := decodeTokens(full)
				var want []semTok
				for _, t := range ftoks {
					if t.Line <= 1 {
						want = append(want, t)
					}
				}
				if fmt.Sprint(got) != fmt.Sprint(want) {
					var kinds []string
					for _, o := range ops {
						kinds = append(kinds, o.Kind)
					}
					c.Violate("history|range result differs from the full result of the current text|"+strings.Join(kinds, ">"), "a range request returns the full result restricted to the lines",
						fmt.Sprintf("after %v\nrange 0..1 returned %v\nfull result of the current text restricted to 0..1: %v", ops, got, want), c17Case{Part: "history", Ops: ops})
				}
			}
			if check {
				// the client's array equals the full response of a fresh server on the current text
				server.VerifxResetGlobals()
				f := wire.New()
				f.Initialize(wire.InitOpts{})
				f.DidOpen(u, c17Variants[text[op.Doc]])
				want, _, _ := semFull(f, u)
				if fmt.Sprint(want) != fmt.Sprint(cl.data) {
					var kinds []string
					for _, o := range ops {
						kinds = append(kinds, o.Kind)
					}
					c.Violate("history|client array differs from the full result|"+strings.Join(kinds, ">"), "deltas reconstruct the full result",
						fmt.Sprintf("after %v\nclient holds %v\nfull result  %v", ops, cl.data, want), c17Case{Part: "history", Ops: ops})
				}
			}
		}
	}
	if key == "" {
		key = stateKey()
	}
	return key, true
}

func c17CacheShape() string {
	d := server.VerifxTokenCacheDump()
	// drop the numeric ids, keep which documents are cached and their data
	var out []string
	for _, l := range strings.Split(d, "\n") {
		if strings.HasPrefix(l, "tok ") {
			if i := strings.Index(l, " id="); i > 0 {
				if j := strings.Index(l[i+1:], " "); j > 0 {
					l = l[:i] + l[i+1+j:]
				}
			}
			out = append(out, l)
		}
	}
	sort.Strings(out)
	return strings.Join(out, "\n")
}

func checkC17(c *core.Ctx) {
	s := wire.New()
	s.Initialize(wire.InitOpts{})
	if c.Replay != nil {
		var cs c17Case
		if err := jsonUnmarshal(c.Replay, &cs); err != nil {
			c.Res.InfraError = "bad replay: " + err.Error()
			return
		}
		if cs.Part == "history" {
			c17Run(c, cs.Ops)
			return
		}
		var applied []gmodel.Dev
		for _, d := range gmodel.Deviations() {
			for _, n := range strings.Split(cs.Devs, " & ") {
				if d.String() == n {
					applied = append(applied, d)
				}
			}
		}
		j := gmodel.Default()
		for _, d := range applied {
			d.Apply(j)
		}
		rd := j.Render()
		c17Geometry(c, s, rd.Text, rd, cs.Devs, func(clause, class, detail string) {
			c.Violate(clause+"|"+class+"|"+cs.Devs, clause, detail+"\n"+rd.Text, cs)
		})
		return
	}
	devs := gmodel.Filter(gmodel.Deviations(), "code", "commodity", "pipe-blanks", "header-kind", "note-shape", "desc-shape", "cost", "cost-amount", "assertion", "status", "posting-status",
		"header-comment", "posting-comment", "tx-comment-line", "comment-line-after-posting", "last-posting-comment", "entry-before", "entry-between", "line-end", "date2", "sign", "number", "account-shape", "posting-kind", "amount-sep", "blank-lines")
	bound := 2
	c.Bound("geometry", fmt.Sprintf("journals from G with <= %d deviations over %d deviations; fragment sequences <= 2", bound, len(devs)))
	cache := map[string]map[string]bool{}
	eval := func(applied []gmodel.Dev, record bool) {
		name := gmodel.DevNames(applied)
		if _, done := cache[name]; done && !record {
			return
		}
		j := gmodel.Default()
		for _, d := range applied {
			d.Apply(j)
		}
		rd := j.Render()
		cur := map[string]bool{}
		c17Geometry(c, s, rd.Text, rd, name, func(clause, class, detail string) {
			key := clause + "|" + class
			cur[key] = true
			if !record {
				return
			}
			n := len(applied)
			for mask := 0; mask < (1<<n)-1; mask++ {
				var sub []gmodel.Dev
				for i := 0; i < n; i++ {
					if mask&(1<<i) != 0 {
						sub = append(sub, applied[i])
					}
				}
				if cache[gmodel.DevNames(sub)][key] {
					c.Count("violations charged to a subset of the deviations", 1)
					return
				}
			}
			c.Violate(key+"|"+name, clause, detail+"\n"+rd.Text, c17Case{Part: "geometry", Devs: name, Text: rd.Text})
		})
		cache[name] = cur
	}
	sampled := 0
	gmodel.Enumerate(gmodel.Default, devs, bound, func(j *gmodel.Journal, applied []gmodel.Dev) bool {
		if !c.Mine() {
			return true
		}
		n := len(applied)
		for mask := 0; mask < (1<<n)-1; mask++ {
			var sub []gmodel.Dev
			for i := 0; i < n; i++ {
				if mask&(1<<i) != 0 {
					sub = append(sub, applied[i])
				}
			}
			eval(sub, false)
		}
		eval(applied, true)
		for _, d := range applied {
			if d.Group == "code" || d.Group == "commodity" || d.Group == "pipe-blanks" || d.Group == "cost" || d.Group == "assertion" || strings.Contains(d.Name, "🍕") || strings.Contains(d.Name, "é") {
				c.Res.Nontrivial++
				break
			}
		}
		if sampled < 2 && n == 2 {
			sampled++
			c.Sample(map[string]any{"part": "geometry", "deviations": gmodel.DevNames(applied)})
		}
		return !c.Expired()
	})
	// arbitrary text: structural clauses only
	for i, a := range fmtFragments {
		for k, b := range append([]string{""}, fmtFragments...) {
			if !c.Mine() {
				continue
			}
			for _, text := range []string{a + b, "2001-01-01 t\n    a:b  $5 " + a + b + "\n"} {
				c17Geometry(c, s, text, nil, "arbitrary text", func(clause, class, detail string) {
					c.Violate(clause+"|"+class+"|arbitrary text", clause, detail+"\n"+text, c17Case{Part: "text", Text: text})
				})
			}
			_, _ = i, k
		}
	}
	// histories
	ops := c17Ops()
	depth := 4
	if c.Thorough() {
		depth = 6
	}
	c.Bound("histories", fmt.Sprintf("BFS depth %d over %d operations (two documents x %d texts, full / delta with current, previous, unknown, empty id / range / close / reopen, second server)", depth, len(ops), len(c17Variants)))
	st := bfs.Search(len(ops), depth, 400000, "init", func(path []int) (string, bool) {
		if c.NShards > 1 && path[0]%c.NShards != c.Shard {
			return "", false
		}
		seq := make([]c17Op, len(path))
		for i, p := range path {
			seq[i] = ops[p]
		}
		key, ok := c17Run(c, seq)
		if ok && sampled < 4 && len(seq) >= 3 && seq[len(seq)-1].Kind == "delta" {
			sampled++
			c.Sample(map[string]any{"part": "history", "ops": fmt.Sprint(seq)})
		}
		return key, ok
	}, c.Expired)
	c.Res.States += st.States
	c.Res.Transitions += st.Transitions
	c.Res.Traces += st.Transitions
	if st.StateCapHit {
		c.Cap("state cap in history search")
	}
}
