package props

import (
	"encoding/json"
	"fmt"
	"os"
	"path/filepath"
	"sort"
	"strings"
	"unicode"

	"github.com/juev/hledger-lsp/internal/verifx/core"
	"github.com/juev/hledger-lsp/internal/verifx/refbuf"
	"github.com/juev/hledger-lsp/internal/verifx/wire"
)

func init() { core.Register("C16", checkC16) }

// symbol table with use counts (ties and strict orders)
type c16Table struct {
	Accounts    map[string]int
	Payees      map[string]int
	Commodities map[string]int
	Tags        map[string]int
	TagValues   map[string][]string
}

func c16Model() c16Table {
	return c16Table{
		// several names are used in both files, with the larger share sometimes in
		// the root and sometimes in the included file: a total that is not the sum
		// over the files changes the order
		Accounts: map[string]int{"expenses:food": 4, "expenses:fuel": 2, "assets:cash": 4, "Assets:Bank account": 3, "расходы:еда": 1, "equity:opening": 1,
			// a name with a blank in its first segment whose rest is the start of other names
			"my assets:cash": 1},
		// "Cafe" is partly written as "Cafe | note"; "Bar (West) End" has a bracket in its name
		Payees:      map[string]int{"shop": 4, "shopping mall": 1, "Cafe": 3, "Åke": 2, "Bar (West) End": 1},
		Commodities: map[string]int{"EUR": 3, "USD": 4, "$": 1},
		Tags:        map[string]int{"trip": 2, "kind": 1, "t2": 1},
		TagValues:   map[string][]string{"trip": {"rome", "paris"}, "kind": {"x"}, "t2": {}},
	}
}

// base journal producing exactly the table above; split: lines for the root and for the included file
func c16Journals() (root, inc string) {
	r := []string{
		"2001-01-01 shop  ; trip:rome",
		"    expenses:food  5 EUR",
		"    assets:cash  -5 EUR",
		"",
		"2001-01-02 shop",
		"    expenses:food  7 USD  ; kind:x",
		"    assets:cash  -7 USD",
		"",
		"2001-01-03 shop",
		"    expenses:food  1 USD",
		"    assets:cash  -1 USD",
		"",
		"2001-01-04 Cafe | coffee",
		"    expenses:fuel  1 EUR",
		"    Assets:Bank account  -1 EUR",
		"",
	}
	i := []string{
		"2001-02-01 Cafe | cake  ; trip:paris",
		"    expenses:fuel  2 EUR",
		"    Assets:Bank account  -2 EUR",
		"",
		"2001-02-02 Cafe",
		"    расходы:еда  $3",
		"    Assets:Bank account  -3 USD  ; t2:",
		"",
		"2001-02-03 shopping mall",
		"    equity:opening  1 USD",
		"    my assets:cash",
		"",
		"2001-02-04 Åke",
		"",
		"2001-02-05 shop",
		"    expenses:food  1 USD",
		"    assets:cash  -1 USD",
		"",
		"2001-02-06 Åke",
		"",
		"2001-02-07 Bar (West) End",
		"",
	}
	return strings.Join(r, "\n"), strings.Join(i, "\n")
}

type c16Config struct {
	Max    int  `json:"max_results"`
	Fuzzy  bool `json:"fuzzy"`
	Counts bool `json:"show_counts"`
}

type c16Line struct {
	Context string // account payee commodity tag tagvalue
	Prefix  string // text of the line before the fragment
	TagName string
}

func c16Lines() []c16Line {
	return []c16Line{
		{Context: "account", Prefix: "    "},
		{Context: "account", Prefix: "    ("},
		{Context: "account", Prefix: "    ["},
		{Context: "account", Prefix: "account "},
		// a posting with a status mark
		{Context: "account", Prefix: "    * "},
		{Context: "account", Prefix: "    ! "},
		{Context: "payee", Prefix: "2001-03-01 "},
		{Context: "payee", Prefix: "2001-03-01 * "},
		{Context: "payee", Prefix: "2001-03-01 (12) "},
		{Context: "commodity", Prefix: "commodity "},
		{Context: "commodity", Prefix: "    expenses:food  5 "},
		// the commodity of a cost and of a balance assertion
		{Context: "commodity", Prefix: "    expenses:food  5 EUR @ 3 "},
		{Context: "commodity", Prefix: "    expenses:food  5 EUR = 7 "},
		{Context: "tag", Prefix: "    ; "},
		{Context: "tag", Prefix: "    expenses:food  5 EUR  ; "},
		{Context: "tagvalue", Prefix: "    ; trip:", TagName: "trip"},
		// characters outside the BMP before the fragment (columns in UTF-16 units)
		{Context: "commodity", Prefix: "    expenses:🍕  5 "},
		{Context: "payee", Prefix: "2001-03-01 (🧾7) "},
		{Context: "tag", Prefix: "    ; note:🍕, "},
		{Context: "tagvalue", Prefix: "    ; note:🍕, trip:", TagName: "trip"},
	}
}

func (t c16Table) names(ctx, tag string) map[string]int {
	switch ctx {
	case "account":
		return t.Accounts
	case "payee":
		return t.Payees
	case "commodity":
		return t.Commodities
	case "tag":
		return t.Tags
	case "tagvalue":
		m := map[string]int{}
		for _, v := range t.TagValues[tag] {
			m[v] = 1
		}
		return m
	}
	return nil
}

var c16KindOf = map[int]string{6: "account", 7: "payee", 13: "commodity", 10: "tag", 12: "tagvalue", 21: "date"}

func isSubsequenceFold(frag, name string) bool {
	f := []rune(strings.ToLower(frag))
	n := []rune(strings.ToLower(name))
	j := 0
	for i := 0; i < len(n) && j < len(f); i++ {
		if n[i] == f[j] {
			j++
		}
	}
	return j == len(f)
}

func hasPrefixFold(name, frag string) bool {
	return strings.HasPrefix(strings.ToLower(name), strings.ToLower(frag))
}

type c16Item struct {
	Label    string `json:"label"`
	Kind     int    `json:"kind"`
	Detail   string `json:"detail"`
	TextEdit *struct {
		Range   lspRange `json:"range"`
		NewText string   `json:"newText"`
	} `json:"textEdit"`
}

type c16Case struct {
	Layout   string    `json:"layout"` // single | include | workspace
	Line     string    `json:"line"`
	Cursor   int       `json:"cursor"`
	Config   c16Config `json:"config"`
	Context  string    `json:"context"`
	Fragment string    `json:"fragment"`
	// Uses: layout "magnitudes" only - how often the three names are used, in document order
	Uses []int `json:"uses,omitempty"`
}

type c16Env struct {
	s      *wire.Session
	uri    string
	base   string
	conf   c16Config
	layout string
	// included files that are open: uri, saved text, editor text
	edited [][3]string
}

func c16Setup(c *core.Ctx, layout string, conf c16Config, idx int) *c16Env {
	dir := filepath.Join(c.Scratch, fmt.Sprintf("c16_%s_%d", layout, idx))
	_ = os.RemoveAll(dir)
	_ = os.MkdirAll(dir, 0o755)
	root, inc := c16Journals()
	base := root + "\n" + inc
	rootOpt := ""
	var openEdited [][3]string // file, disk text, editor text
	switch layout {
	case "include":
		_ = os.WriteFile(filepath.Join(dir, "inc.journal"), []byte(inc), 0o644)
		base = "include inc.journal\n\n" + root
	case "two-included-files-open-and-edited":
		// both included files are open with unsaved edits: what is on disk are older
		// versions with other names, the editor texts are the two halves of inc
		parts := strings.SplitN(inc, "2001-02-03", 2)
		new1, new2 := parts[0], "2001-02-03"+parts[1]
		old1 := "2001-02-01 Old Payee One\n    old:account one  1 OLD\n    old:other  -1 OLD\n"
		old2 := "2001-02-03 Old Payee Two  ; oldtag:v\n    old:account two  1 OLD\n    old:other  -1 OLD\n"
		_ = os.WriteFile(filepath.Join(dir, "inc1.journal"), []byte(old1), 0o644)
		_ = os.WriteFile(filepath.Join(dir, "inc2.journal"), []byte(old2), 0o644)
		base = "include inc1.journal\ninclude inc2.journal\n\n" + root
		openEdited = [][3]string{{"inc1.journal", old1, new1}, {"inc2.journal", old2, new2}}
	case "workspace":
		_ = os.WriteFile(filepath.Join(dir, "inc.journal"), []byte(inc), 0o644)
		base = "include inc.journal\n\n" + root
		_ = os.WriteFile(filepath.Join(dir, "main.journal"), []byte(base), 0o644)
		rootOpt = dir
	}
	s := wire.New()
	s.Initialize(wire.InitOpts{Root: rootOpt, Options: fmt.Sprintf(`{"completion":{"maxResults":%d,"fuzzyMatching":%v,"showCounts":%v}}`, conf.Max, conf.Fuzzy, conf.Counts)})
	s.Initialized()
	env := &c16Env{s: s, uri: wire.URI(filepath.Join(dir, "main.journal")), base: base, conf: conf, layout: layout}
	for _, oe := range openEdited {
		u := wire.URI(filepath.Join(dir, oe[0]))
		s.DidOpen(u, oe[1])
		env.edited = append(env.edited, [3]string{u, oe[1], oe[2]})
	}
	return env
}

func (e *c16Env) complete(line string, cursor int) ([]c16Item, int, string) {
	text := e.base + "\n" + line + "\n"
	lineNo := strings.Count(e.base, "\n") + 1
	e.s.DidOpen(e.uri, text)
	if len(e.edited) > 0 {
		// the same request once before the included files are edited: what it
		// leaves behind must not answer the request made after the edits
		e.s.Call("textDocument/completion", wire.DocPos(e.uri, lineNo, cursor))
		for _, oe := range e.edited {
			e.s.DidChangeFull(oe[0], oe[2], 2)
		}
	}
	r := e.s.Call("textDocument/completion", wire.DocPos(e.uri, lineNo, cursor))
	for _, oe := range e.edited {
		e.s.DidChangeFull(oe[0], oe[1], 3)
	}
	e.s.DidClose(e.uri)
	var v struct {
		Items []c16Item `json:"items"`
	}
	if !r.OK() {
		return nil, lineNo, r.Err + r.Panic
	}
	_ = json.Unmarshal([]byte(r.Result), &v)
	return v.Items, lineNo, ""
}

func checkC16(c *core.Ctx) {
	model := c16Model()
	maxes := []int{1, 2, 3, 5, 50, 200}
	var configs []c16Config
	for _, fz := range []bool{true, false} {
		for _, sc := range []bool{true, false} {
			for _, m := range maxes {
				configs = append(configs, c16Config{m, fz, sc})
			}
		}
	}
	layouts := []string{"single", "include", "workspace", "two-included-files-open-and-edited"}
	if c.Replay != nil {
		var cs c16Case
		if err := jsonUnmarshal(c.Replay, &cs); err != nil {
			c.Res.InfraError = "bad replay: " + err.Error()
			return
		}
		if cs.Layout == "magnitudes" {
			c16MagnitudeCase(c, cs.Uses)
			return
		}
		env := c16Setup(c, cs.Layout, cs.Config, 0)
		items, _, _ := env.complete(cs.Line, cs.Cursor)
		var labels []string
		for _, it := range items {
			labels = append(labels, it.Label)
		}
		c.Note("labels: %v", labels)
		c16CheckResponse(c, model, env, c16Line{Context: cs.Context}, cs.Line, cs.Cursor, cs.Fragment, true, items, 0)
		return
	}
	c.Bound("symbol table", "6 accounts, 5 payees (one partly written as payee | note, one with brackets in its name), 3 commodities, 3 tags with 0-2 values; use counts with ties and strict orders; single file, root + included file, root + included file + workspace, root + two included files that are open with unsaved edits")
	c.Bound("configurations", "maxResults {1,2,3,5,50,200} x fuzzy on/off x counts on/off")
	// frequency ranking at larger use counts: three names whose counts straddle a
	// power of two, the least used one first in the document
	mags := [][]int{{2, 3, 5}, {120, 127, 130}, {250, 257, 300}, {500, 513, 600}, {1000, 1025, 1100}, {1100, 1400, 1900}, {2040, 2050, 2100}}
	if c.Thorough() {
		mags = append(mags, []int{4090, 4100, 4200}, []int{16380, 16390, 16400}, []int{32760, 32770, 33000})
	}
	c.Bound("use counts", fmt.Sprintf("accounts and payees used %v times (accounts twice that), least used first in the document, nothing typed", mags))
	for _, uses := range mags {
		if c.Mine() {
			c16MagnitudeCase(c, uses)
		}
	}
	sampled := 0
	envIdx := 0
	for _, layout := range layouts {
		for fi := 0; fi < 4; fi++ { // (fuzzy, counts) groups: the six maxResults of one group are compared for the limit law
			group := configs[fi*len(maxes) : (fi+1)*len(maxes)]
			if !c.Mine() {
				continue
			}
			envs := make([]*c16Env, len(group))
			for i, cf := range group {
				envIdx++
				envs[i] = c16Setup(c, layout, cf, envIdx)
			}
			for _, ln := range c16Lines() {
				names := model.names(ln.Context, ln.TagName)
				var frags []string
				seen := map[string]bool{}
				add := func(f string) {
					if !seen[f] {
						seen[f] = true
						frags = append(frags, f)
					}
				}
				add("")
				var sortedNames []string
				for n := range names {
					sortedNames = append(sortedNames, n)
				}
				sort.Strings(sortedNames)
				for _, n := range sortedNames {
					rs := []rune(n)
					for k := 1; k <= len(rs); k++ {
						p := string(rs[:k])
						add(p)
						add(strings.ToLower(p))
						add(strings.ToUpper(p))
					}
				}
				if len(sortedNames) > 0 {
					// subsequences of length <= 3 of one name
					rs := []rune(sortedNames[0])
					for a := 0; a < len(rs); a++ {
						add(string(rs[a]))
						for b := a + 1; b < len(rs); b++ {
							add(string([]rune{rs[a], rs[b]}))
							for d := b + 1; d < len(rs) && d < b+4; d++ {
								add(string([]rune{rs[a], rs[b], rs[d]}))
							}
						}
					}
				}
				add("zzqx")
				for _, frag := range frags {
					if strings.ContainsAny(frag, ";") || strings.HasPrefix(frag, " ") {
						continue
					}
					if ln.Context == "payee" && strings.HasPrefix(frag, "(") {
						continue // after the date a leading bracket opens a transaction code, not a payee
					}
					line := ln.Prefix + frag
					cursor := u16(line)
					var lists [][]c16Item
					for i, env := range envs {
						items, _, errs := env.complete(line, cursor)
						c.Res.Evaluations++
						if errs != "" {
							c.Violate("completion fails|"+firstLine(errs), "completion returns a result", errs, c16Case{layout, line, cursor, env.conf, ln.Context, frag, nil})
							continue
						}
						c16CheckResponse(c, model, env, ln, line, cursor, frag, true, items, i)
						lists = append(lists, items)
						if sampled < 3 && frag != "" && len(items) > 1 && len(items) < 5 {
							sampled++
							var labels []string
							for _, it := range items {
								labels = append(labels, it.Label)
							}
							c.Sample(map[string]any{"layout": layout, "line": line, "config": env.conf, "labels": labels})
						}
					}
					// limit law: items(max=a) is the length-a prefix of items(max=b), a < b
					for a := 0; a+1 < len(lists); a++ {
						la, lb := labelsOf(lists[a]), labelsOf(lists[a+1])
						want := lb
						if len(want) > group[a].Max {
							want = want[:group[a].Max]
						}
						if fmt.Sprint(la) != fmt.Sprint(want) {
							c.Violate(fmt.Sprintf("limit law|%s context|fuzzy=%v", ln.Context, group[a].Fuzzy), "a smaller maximum returns a prefix of the list for a larger one",
								fmt.Sprintf("line %q max=%d: %v\nmax=%d: %v", line, group[a].Max, la, group[a+1].Max, lb), c16Case{layout, line, cursor, group[a], ln.Context, frag, nil})
						}
					}
				}
				// universal clauses at every cursor column of two representative lines
				for _, frag := range []string{sortedFirst(sortedNames), "zz"} {
					line := ln.Prefix + frag
					for cur := 0; cur <= u16(line); cur++ {
						if refbuf.New(line).InsideSurrogatePair(refbuf.Pos{Line: 0, Char: cur}) {
							continue
						}
						for _, i := range []int{0, len(envs) - 1} {
							items, _, errs := envs[i].complete(line, cur)
							c.Res.Evaluations++
							if errs == "" {
								c16CheckResponse(c, model, envs[i], ln, line, cur, "", false, items, i)
							}
						}
					}
				}
			}
			if c.Expired() {
				return
			}
		}
	}
}

func sortedFirst(s []string) string {
	if len(s) == 0 {
		return "x"
	}
	return s[0]
}

func labelsOf(items []c16Item) []string {
	var out []string
	for _, it := range items {
		out = append(out, it.Label)
	}
	return out
}

// c16CheckResponse evaluates the per-response clauses. designed = the cursor
// stands at the end of a fragment typed in an unambiguous context.
func c16CheckResponse(c *core.Ctx, model c16Table, env *c16Env, ln c16Line, line string, cursor int, frag string, designed bool, items []c16Item, confIdx int) {
	conf := env.conf
	cas := c16Case{env.layout, line, cursor, conf, ln.Context, frag, nil}
	pfx := "prefix=" + fmt.Sprintf("%q", ln.Prefix)
	viol := func(clause, class, detail string) {
		c.Violate(fmt.Sprintf("%s|%s|%s context, %s, fuzzy=%v", clause, class, ln.Context, pfx, conf.Fuzzy), clause,
			fmt.Sprintf("layout %s, line %q cursor %d, config %+v\n%s\nlabels: %v", env.layout, line, cursor, conf, detail, labelsOf(items)), cas)
	}
	if len(items) > conf.Max {
		viol("at most the configured maximum is returned", "too many items", fmt.Sprintf("%d items, max %d", len(items), conf.Max))
	}
	lineNo := strings.Count(env.base, "\n") + 1
	buf := refbuf.New(line)
	nontrivial := false
	for _, it := range items {
		kind := c16KindOf[it.Kind]
		if kind == "date" {
			continue // date completion is clock-dependent (totality only, C06)
		}
		// soundness: the label exists with the kind the item declares
		var universe map[string]int
		switch kind {
		case "account":
			universe = model.Accounts
		case "payee":
			universe = model.Payees
		case "commodity":
			universe = model.Commodities
		case "tag":
			universe = model.Tags
		case "tagvalue":
			universe = map[string]int{}
			for _, vs := range model.TagValues {
				for _, v := range vs {
					universe[v] = 1
				}
			}
		}
		if _, ok := universe[it.Label]; !ok {
			// the line being typed is part of the document: what it spells itself is a name of the document
			if !lineSpells(line, it.Label) {
				viol("only names that exist are offered", "unknown "+kind+" name", fmt.Sprintf("label %q (kind %d)", it.Label, it.Kind))
			}
			continue
		}
		if it.TextEdit == nil {
			continue
		}
		r := it.TextEdit.Range
		if r.Start.Line != lineNo || r.End.Line != lineNo || r.End.Char != cursor || r.Start.Char > cursor {
			viol("accepting an item replaces only the typed fragment up to the cursor", "range not anchored at the cursor", fmt.Sprintf("range %s cursor %d:%d", r, lineNo, cursor))
			continue
		}
		typed := sliceU16(line, r.Start.Char, cursor)
		if conf.Fuzzy {
			if !isSubsequenceFold(typed, it.Label) {
				viol("every item matches the typed fragment", "not a subsequence match", fmt.Sprintf("label %q does not contain %q as a subsequence", it.Label, typed))
			}
		} else if !hasPrefixFold(it.Label, typed) {
			viol("every item matches the typed fragment", "not a prefix match", fmt.Sprintf("label %q does not start with %q", it.Label, typed))
		}
		if designed && typed != frag {
			viol("accepting an item replaces only the typed fragment up to the cursor", "replaced text differs from the typed fragment", fmt.Sprintf("replaces %q, typed fragment %q", typed, frag))
		}
		_ = buf
	}
	if !designed {
		return
	}
	names := model.names(ln.Context, ln.TagName)
	// completeness for prefixes
	var starting []string
	for n := range names {
		if hasPrefixFold(n, frag) {
			starting = append(starting, n)
		}
	}
	sort.Strings(starting)
	if len(starting) > 0 && len(starting) < len(names) {
		nontrivial = true
	}
	if nontrivial && confIdx == 0 {
		c.Res.Nontrivial++
	}
	got := map[string]bool{}
	for _, it := range items {
		got[it.Label] = true
	}
	// names spelled by the typed line itself legitimately take slots
	own := 0
	for _, it := range items {
		if _, ok := names[it.Label]; !ok && lineSpells(line, it.Label) {
			own++
		}
	}
	if len(starting)+own <= conf.Max {
		for _, n := range starting {
			if !got[n] {
				viol("every existing name that starts with the fragment is offered", "missing name", fmt.Sprintf("fragment %q: %q is missing (names starting with it: %v)", frag, n, starting))
				break
			}
		}
	}
	// frequency ranking with nothing typed
	if frag == "" && ln.Context != "tagvalue" {
		last := 1 << 30
		for _, it := range items {
			cnt, ok := names[it.Label]
			if !ok {
				continue
			}
			if cnt > last {
				viol("with nothing typed more frequently used names come first", "count increases along the list", fmt.Sprintf("%q (%d uses) after a name with %d uses", it.Label, cnt, last))
				break
			}
			last = cnt
		}
	}
}

// lineSpells: the typed line itself contains the label as a whole name.
func lineSpells(line, label string) bool {
	if label == "" {
		return false
	}
	for from := 0; from < len(line); {
		i := strings.Index(line[from:], label)
		if i < 0 {
			return false
		}
		i += from
		before, after := line[:i], line[i+len(label):]
		okB := before == "" || !isWordRune([]rune(before)[len([]rune(before))-1])
		okA := after == "" || !isWordRune([]rune(after)[0])
		if okB && okA {
			return true
		}
		from = i + 1
	}
	return false
}

func isWordRune(r rune) bool { return unicode.IsLetter(r) || unicode.IsDigit(r) }

// c16MagnitudeCase: one document in which payee P<i> heads uses[i] transactions
// and account m:<i> has 2*uses[i] postings, the blocks in ascending order of
// use; with nothing typed the more frequently used name must come first.
func c16MagnitudeCase(c *core.Ctx, uses []int) {
	var b strings.Builder
	names := []string{"one", "two", "three"}
	for i, n := range uses {
		for k := 0; k < n; k++ {
			fmt.Fprintf(&b, "2001-01-01 P%s\n    m:%s  1 X\n    m:%s  -1 X\n\n", names[i], names[i], names[i])
		}
	}
	base := b.String()
	lineNo := strings.Count(base, "\n")
	s := wire.New()
	s.Initialize(wire.InitOpts{Options: `{"completion":{"maxResults":50,"fuzzyMatching":true,"showCounts":true}}`})
	s.Initialized()
	uri := wire.URI(filepath.Join(c.Scratch, "c16_magnitudes.journal"))
	for _, probe := range []struct {
		ctx, line, pfx string
		kind      int
	}{{"account", "    ", "m:", 6}, {"payee", "2001-03-01 ", "P", 7}} {
		s.DidOpen(uri, base+probe.line+"\n")
		r := s.Call("textDocument/completion", wire.DocPos(uri, lineNo, len(probe.line)))
		s.DidClose(uri)
		c.Res.Evaluations++
		c.Res.Nontrivial++
		c.Count("completions on documents with large use counts", 1)
		var v struct {
			Items []c16Item `json:"items"`
		}
		if !r.OK() {
			continue // totality is C06's
		}
		_ = json.Unmarshal([]byte(r.Result), &v)
		pos := map[string]int{}
		for i, it := range v.Items {
			if _, dup := pos[it.Label]; !dup {
				pos[it.Label] = i
			}
		}
		cas := c16Case{Layout: "magnitudes", Line: probe.line, Cursor: len(probe.line), Context: probe.ctx, Uses: uses}
		for i := 0; i+1 < len(uses); i++ {
			lo, hi := probe.pfx+names[i], probe.pfx+names[i+1]
			pl, okl := pos[lo]
			ph, okh := pos[hi]
			if !okl || !okh {
				c.Violate(fmt.Sprintf("every existing name that starts with the fragment is offered|missing name|%s context, large use counts", probe.ctx), "every existing name that starts with the fragment is offered",
					fmt.Sprintf("uses %v: %q or %q is missing\nlabels: %v", uses, lo, hi, labelsOf(v.Items)), cas)
				break
			}
			if uses[i] < uses[i+1] && pl < ph {
				c.Violate(fmt.Sprintf("with nothing typed more frequently used names come first|count increases along the list|%s context, large use counts", probe.ctx), "with nothing typed more frequently used names come first",
					fmt.Sprintf("uses %v: %q (fewer uses) is listed before %q\nlabels: %v", uses, lo, hi, labelsOf(v.Items)), cas)
				break
			}
		}
	}
}
