package props

import (
	"fmt"
	"os"
	"path/filepath"
	"regexp"
	"sort"
	"strings"
	"unicode/utf8"

	"github.com/juev/hledger-lsp/internal/parser"
	"github.com/juev/hledger-lsp/internal/verifx/core"
	"github.com/juev/hledger-lsp/internal/verifx/gmodel"
	"github.com/juev/hledger-lsp/internal/verifx/refbuf"
	"github.com/juev/hledger-lsp/internal/verifx/wire"
)

// C04 and C05 share one enumeration (documents x configurations); each check
// reports its own clauses.
func init() {
	core.Register("C04", func(c *core.Ctx) { checkFormat(c, "C04") })
	core.Register("C05", func(c *core.Ctx) { checkFormat(c, "C05") })
}

type fmtConfig struct {
	Indent int    `json:"indent"`
	Align  bool   `json:"align"`
	MinCol int    `json:"min_col"`
	Format string `json:"formats"`  // name of the commodity-format set
	Where  string `json:"declared"` // "", "file", "workspace"
}

func (f fmtConfig) String() string {
	return fmt.Sprintf("indent=%d align=%v mincol=%d formats=%s/%s", f.Indent, f.Align, f.MinCol, f.Format, f.Where)
}

// commodity format sets: directive text
var fmtSets = map[string]string{
	"none":              "",
	"usd-comma-2":       "commodity $1,000.00\n",
	"usd-0-decimals":    "commodity $1000\n",
	"usd-1-decimal":     "commodity $1000.0\n",
	"usd-point-comma-3": "commodity $1.000,000\n",
	"eur-space-comma-2": "commodity 1 000,00 EUR\n",
	"default-comma-2":   "D $1,000.00\n",
	"default-0":         "D 1000 EUR\n",
	"all-8-decimals":    "commodity $1,000.00000000\ncommodity 1.000,00000000 EUR\ncommodity 1000.00000000 USD\n",
	"quoted-2":          "commodity 1,000.00 \"green apples\"\n",
}

func fmtSetNames() []string {
	var ks []string
	for k := range fmtSets {
		ks = append(ks, k)
	}
	sort.Strings(ks)
	return ks
}

// genericFormats: mark x group x decimals (thorough)
func genericFormats() map[string]string {
	out := map[string]string{}
	for _, mark := range []string{".", ","} {
		for _, grp := range []string{"", ",", ".", " "} {
			if grp == mark {
				continue
			}
			for dec := 0; dec <= 8; dec++ {
				num := "1" + grp + "000"
				if dec > 0 {
					num += mark + strings.Repeat("0", dec)
				}
				name := fmt.Sprintf("gen mark%q group%q dec%d", mark, grp, dec)
				out[name] = "commodity $" + num + "\ncommodity " + num + " EUR\n"
			}
		}
	}
	return out
}

// quick configurations: every value of every configuration parameter appears,
// with every format set, at least once (all pairs format x {indent, align, mincol}
// are not all covered in quick; thorough runs the full product)
func fmtConfigsQuick() []fmtConfig {
	names := fmtSetNames()
	indents := []int{4, 1, 2, 8, 3, 5, 6, 7}
	mins := []int{0, 1, 10, 40, 80}
	var out []fmtConfig
	i := 0
	for _, n := range names {
		wheres := []string{"file"}
		if n == "none" {
			wheres = []string{""}
		}
		if n == "usd-comma-2" || n == "usd-0-decimals" || n == "all-8-decimals" {
			wheres = []string{"file", "workspace"}
		}
		for _, w := range wheres {
			out = append(out, fmtConfig{Indent: indents[i%len(indents)], Align: i%3 != 2, MinCol: mins[i%len(mins)], Format: n, Where: w})
			i++
		}
	}
	// the remaining parameter values with no formats
	for k := 0; k < 8; k++ {
		out = append(out, fmtConfig{Indent: indents[k], Align: k%2 == 0, MinCol: mins[(k+2)%len(mins)], Format: "none"})
	}
	return out
}

type fmtSession struct {
	s    *wire.Session
	dir  string
	uri  string
	conf fmtConfig
	// workspace sessions: format other.journal (otherText) before the next document
	otherFirst bool
	otherText  string
}

func newFmtSession(c *core.Ctx, conf fmtConfig, idx int, sets map[string]string) *fmtSession {
	dir := filepath.Join(c.Scratch, fmt.Sprintf("c04_%d", idx))
	_ = os.RemoveAll(dir)
	_ = os.MkdirAll(dir, 0o755)
	s := wire.New()
	opts := fmt.Sprintf(`{"formatting":{"indentSize":%d,"alignAmounts":%v,"minAlignmentColumn":%d},"diagnostics":{"undeclaredAccounts":false,"undeclaredCommodities":false}}`, conf.Indent, conf.Align, conf.MinCol)
	root := ""
	if conf.Where == "workspace" {
		root = dir
		_ = os.WriteFile(filepath.Join(dir, "main.journal"), []byte("include doc.journal\ninclude formats.journal\n"), 0o644)
		_ = os.WriteFile(filepath.Join(dir, "formats.journal"), []byte(sets[conf.Format]), 0o644)
		_ = os.WriteFile(filepath.Join(dir, "doc.journal"), []byte(""), 0o644)
	}
	s.Initialize(wire.InitOpts{Root: root, Options: opts})
	s.Initialized()
	fs := &fmtSession{s: s, dir: dir, uri: wire.URI(filepath.Join(dir, "doc.journal")), conf: conf}
	if conf.Where == "workspace" {
		// formats that differ from every set of the catalogue (6 decimals, other marks)
		fs.otherText = "commodity $1 000,000000\ncommodity 1 000,000000 USD\ncommodity 1 000,000000 EUR\ncommodity € 1 000,000000\ncommodity 1 000,000000 \"green apples\"\n\n2001-09-09 other\n    a:b  $1\n    a:c\n"
	}
	return fs
}

type fmtResult struct {
	Edits []refbuf.TextEdit
	Raw   string
	Err   string
	Diags string
}

// staleVersion: the same document with other digits on its indented lines (an
// older saved version whose posting lines differ only in their numbers).
func staleVersion(text string) string {
	lines := strings.Split(text, "\n")
	for i, l := range lines {
		if !strings.HasPrefix(l, " ") && !strings.HasPrefix(l, "\t") {
			continue
		}
		b := []byte(l)
		for k, ch := range b {
			switch {
			case ch >= '1' && ch <= '8':
				b[k] = ch + 1
			case ch == '9':
				b[k] = '1'
			}
		}
		lines[i] = string(b)
	}
	return strings.Join(lines, "\n")
}

func (f *fmtSession) format(text string) fmtResult {
	opened := false
	if f.conf.Where == "workspace" {
		// the workspace holds an older saved version of the document: the file on
		// disk (read by the workspace when the document is closed) differs from
		// the text the editor opens next
		old := staleVersion(text)
		_ = os.WriteFile(filepath.Join(f.dir, "doc.journal"), []byte(old), 0o644)
		f.s.DidOpen(f.uri, old)
		f.s.DidClose(f.uri)
		if f.otherFirst {
			// another document, outside the root's include tree, which declares its own
			// (different) formats for the same commodities, is formatted first
			// (both documents are open by then: opening a document refreshes the
			// workspace and with it the caches a formatting run may have filled)
			f.otherFirst = false
			ou := wire.URI(filepath.Join(f.dir, "other.journal"))
			f.s.DidOpen(ou, f.otherText)
			f.s.DidOpen(f.uri, text)
			f.s.Call("textDocument/formatting", `{"textDocument":{"uri":`+wire.Q(ou)+`},"options":{"tabSize":4,"insertSpaces":true}}`)
			f.s.DidClose(ou)
			opened = true
		}
	}
	if !opened {
		f.s.DidOpen(f.uri, text)
	}
	r := f.s.Call("textDocument/formatting", `{"textDocument":{"uri":`+wire.Q(f.uri)+`},"options":{"tabSize":4,"insertSpaces":true}}`)
	diags := f.s.Client.Last(f.uri)
	f.s.DidClose(f.uri)
	res := fmtResult{Raw: r.Result, Diags: diags}
	if !r.OK() {
		res.Err = r.Err + r.Panic
		return res
	}
	if r.Result != "null" {
		if err := jsonUnmarshal([]byte(r.Result), &res.Edits); err != nil {
			res.Err = "undecodable edits: " + err.Error()
		}
	}
	return res
}

var numberish = regexp.MustCompile(`[+-]?[0-9][0-9.,]*(?:[ ][0-9][0-9.,]*)*(?:[eE][+-]?[0-9]+)?`)

// skeleton: the characters of a line that formatting may not lose: everything
// except blanks, quotes and number spellings (which are legitimately rewritten)
func skeleton(line string) map[rune]int {
	line = numberish.ReplaceAllString(line, "")
	m := map[rune]int{}
	for _, r := range line {
		switch r {
		case ' ', '\t', '"', '\r', '+':
			continue
		}
		m[r]++
	}
	return m
}

type fmtCase struct {
	Text   string    `json:"text"`
	Config fmtConfig `json:"config"`
	Kind   string    `json:"kind"`
	Devs   string    `json:"deviations,omitempty"`
}

// semantic dump for the differential clause (positions ignored, comments modulo blanks)
func semDump(text string) (string, int) {
	j, errs := parser.Parse(text)
	if j == nil {
		return "nil", len(errs)
	}
	f := astFields(j)
	var ks []string
	for k := range f {
		ks = append(ks, k)
	}
	sort.Strings(ks)
	var b strings.Builder
	for _, k := range ks {
		// values are compared modulo surrounding blanks: losing trailing blanks is
		// explicitly allowed, and an unterminated "quote or (code swallows them
		b.WriteString(k + "=" + strings.TrimSpace(f[k]) + "\n")
	}
	return b.String(), len(errs)
}

func diagKey(js string) string {
	var out []string
	for _, d := range parseDiags(js) {
		out = append(out, fmt.Sprintf("%s|%s|%d", d.Code, d.Message, d.StartLine))
	}
	sort.Strings(out)
	return strings.Join(out, "\n")
}

// checkOne formats one document under one configuration and evaluates the
// clauses of the requested property.
func fmtCheckOne(c *core.Ctx, prop string, fs *fmtSession, sets map[string]string, text, kind, devs string, model *gmodel.Journal) {
	conf := fs.conf
	doc := text
	if conf.Where == "file" {
		doc = sets[conf.Format] + "\n" + text
	}
	cas := fmtCase{Text: doc, Config: conf, Kind: kind, Devs: devs}
	if kind != "valid" {
		c.Announce(cas)
	}
	fs.otherFirst = fs.otherText != ""
	res := fs.format(doc)
	fs.otherFirst = false
	c.Res.Evaluations++
	cause := kind
	if devs != "" {
		cause = kind + ": " + devs
	}
	fmtClass := conf.Format
	if strings.HasPrefix(fmtClass, "gen ") {
		fmtClass = "generic format"
	}
	viol := func(p, clause, class, detail string) {
		if p != prop {
			return
		}
		c.Violate(fmt.Sprintf("%s|%s|%s|formats=%s", clause, class, cause, fmtClass), clause, fmt.Sprintf("config %s\n%s\n--- document:\n%s", conf, detail, doc), cas)
	}
	if res.Err != "" {
		viol("C05", "formatting returns a result", firstLine(res.Err), res.Err)
		viol("C04", "formatting returns a result", firstLine(res.Err), res.Err)
		return
	}
	buf := refbuf.New(doc)
	if msg := buf.CheckEdits(res.Edits); msg != "" {
		cls := msg
		if i := strings.Index(msg, ": "); i >= 0 {
			cls = msg[i+2:]
		}
		cls = regexp.MustCompile(`[0-9]+`).ReplaceAllString(cls, "N")
		viol("C05", "edit ranges are well-formed", cls, msg+"\nedits: "+res.Raw)
		return // charged to C05; C04 skips the case
	}
	out := buf.ApplyEdits(res.Edits)
	changed := out != doc
	if changed {
		c.Res.Nontrivial++
	}
	origLines := strings.Split(doc, "\n")
	outLines := strings.Split(out, "\n")

	if prop == "C04" {
		// (ii) differential: same semantics, same diagnostics
		d0, e0 := semDump(doc)
		d1, e1 := semDump(out)
		if d0 != d1 || e0 != e1 {
			detail := fmt.Sprintf("--- formatted:\n%s\n--- first difference: %s", out, firstDiffLine(d0, d1))
			switch {
			case hasAmbiguousNumber(out) && !hasAmbiguousNumber(doc):
				// known class: a display format with exactly three decimals writes
				// numbers that the project's parser re-reads as a digit group
				if prop == "C04" {
					c.Violate("formatted text has the same meaning|number written with one mark and exactly three decimals is re-read as a digit group", "formatted text has the same meaning",
						fmt.Sprintf("config %s\n%s\n--- document:\n%s", conf, detail, doc), cas)
				}
			case hasBlankOnlyLineInTransaction(doc):
				if prop == "C04" {
					c.Violate("formatted text has the same meaning|whitespace-only line inside a transaction is emptied and then ends the transaction", "formatted text has the same meaning",
						fmt.Sprintf("config %s\n%s\n--- document:\n%s", conf, detail, doc), cas)
				}
			default:
				viol("C04", "formatted text has the same meaning", firstDiffField(d0, d1, e0, e1), detail)
			}
		} else {
			fs.s.DidOpen(fs.uri, out)
			dg := fs.s.Client.Last(fs.uri)
			fs.s.DidClose(fs.uri)
			if diagKey(dg) != diagKey(res.Diags) {
				viol("C04", "formatted text has the same diagnostics", "diagnostics differ", fmt.Sprintf("before: %s\nafter: %s\n--- formatted:\n%s", diagKey(res.Diags), diagKey(dg), out))
			}
		}
		// (iii) non-posting lines change only by loss of trailing blanks; (iv) no deletion
		j0, _ := parser.Parse(doc)
		posting := map[int]bool{}
		if j0 != nil {
			for _, t := range j0.Transactions {
				for _, p := range t.Postings {
					posting[p.Range.Start.Line-1] = true
				}
			}
		}
		if len(outLines) != len(origLines) {
			viol("C04", "line structure is preserved", "number of lines changed", fmt.Sprintf("%d -> %d lines\n--- formatted:\n%s", len(origLines), len(outLines), out))
		} else {
			for i := range origLines {
				if !posting[i] {
					if outLines[i] != origLines[i] && outLines[i] != strings.TrimRight(origLines[i], " \t") && strings.TrimRight(outLines[i], "\r") != strings.TrimRight(strings.TrimRight(origLines[i], "\r"), " \t") {
						viol("C04", "non-posting lines change only by loss of trailing blanks", "non-posting line rewritten", fmt.Sprintf("line %d: %q -> %q", i, origLines[i], outLines[i]))
						break
					}
					continue
				}
				a, b := skeleton(origLines[i]), skeleton(outLines[i])
				var lost []string
				for r, n := range a {
					if b[r] < n {
						lost = append(lost, string(r))
					}
				}
				if len(lost) > 0 {
					sort.Strings(lost)
					viol("C04", "no text is deleted from a rewritten line", "characters lost", fmt.Sprintf("line %d: %q -> %q (lost %v)", i, origLines[i], outLines[i], lost))
					break
				}
			}
		}
		return
	}

	// ---- C05 ----
	// (ii) idempotence on the result of the first formatting
	res2 := fs.format(out)
	if res2.Err == "" {
		b2 := refbuf.New(out)
		if msg := b2.CheckEdits(res2.Edits); msg == "" {
			out2 := b2.ApplyEdits(res2.Edits)
			if out2 != out {
				if hasAmbiguousNumber(out) && !hasAmbiguousNumber(doc) {
					c.Violate("formatting formatted text changes nothing|number written with one mark and exactly three decimals is re-read as a digit group", "formatting formatted text changes nothing",
						fmt.Sprintf("config %s\n--- first:\n%s\n--- second:\n%s\n--- document:\n%s", conf, out, out2, doc), cas)
				} else {
					viol("C05", "formatting formatted text changes nothing", idemClass(out, out2), fmt.Sprintf("--- first:\n%s\n--- second:\n%s", out, out2))
				}
			}
		}
	}
	// (iii) alignment (documents rendered from the model only)
	if model != nil && conf.Align && kind == "valid" {
		fmtCheckAlignment(viol, conf, model, out, doc)
	}
}

func idemClass(a, b string) string {
	la, lb := strings.Split(a, "\n"), strings.Split(b, "\n")
	for i := range la {
		if i < len(lb) && la[i] != lb[i] {
			switch {
			case len(lb[i]) > len(la[i]) && strings.ReplaceAll(la[i], " ", "") == strings.ReplaceAll(lb[i], " ", ""):
				return "line gains blanks on every run"
			case len(lb[i]) < len(la[i]):
				return "line loses text on the second run"
			}
			return "line changes on the second run"
		}
	}
	return "text changes on the second run"
}

func firstDiffLine(a, b string) string {
	la, lb := strings.Split(a, "\n"), strings.Split(b, "\n")
	for i := range la {
		if i >= len(lb) || la[i] != lb[i] {
			o := ""
			if i < len(lb) {
				o = lb[i]
			}
			return la[i] + "  -->  " + o
		}
	}
	if len(lb) > len(la) {
		return "extra: " + lb[len(la)]
	}
	return ""
}

func firstDiffField(a, b string, e0, e1 int) string {
	if a == b {
		return fmt.Sprintf("number of syntax errors %d -> %d", e0, e1)
	}
	d := firstDiffLine(a, b)
	if i := strings.Index(d, "="); i > 0 {
		return gmodel.GenericPath(d[:i]) + " changes"
	}
	return "structure changes"
}

// alignment clause for a model journal: posting lines start with exactly
// `indent` spaces; amounts after an account without status mark share one
// column >= longest indent+bracketed account + 2 and >= MinCol.
func fmtCheckAlignment(viol func(p, clause, class, detail string), conf fmtConfig, j *gmodel.Journal, out, doc string) {
	// locate posting lines through the model: render gives line numbers; the
	// document may carry a prefix of directive lines (file-declared formats)
	rd := j.Render()
	offset := strings.Count(doc, "\n") - strings.Count(rd.Text, "\n")
	if !strings.HasSuffix(doc, "\n") && strings.HasSuffix(rd.Text, "\n") {
		offset++
	}
	lines := strings.Split(out, "\n")
	col := -1
	longest := 0
	type pl struct {
		line    int
		account string
		kind    int
		status  string
		amount  bool
	}
	var pls []pl
	for ei, e := range j.Entries {
		if e.Kind != gmodel.EntryTx {
			continue
		}
		for pi, p := range e.Tx.Postings {
			sp := rd.Find("posting", ei, pi)
			if len(sp) == 0 {
				continue
			}
			pls = append(pls, pl{sp[0].Line + offset, p.Account, p.Kind, p.Status, p.Amount != nil})
			w := utf8.RuneCountInString(p.Account)
			if p.Kind != gmodel.KindOrdinary {
				w += 2
			}
			if w > longest {
				longest = w
			}
		}
	}
	for _, p := range pls {
		if p.line < 0 || p.line >= len(lines) {
			continue
		}
		l := strings.TrimRight(lines[p.line], "\r")
		ind := len(l) - len(strings.TrimLeft(l, " "))
		if ind != conf.Indent || (len(l) > ind && (l[ind] == '\t')) {
			viol("C05", "posting lines start with exactly the configured indent", "wrong indent", fmt.Sprintf("line %d %q: indent %d, configured %d", p.line, l, ind, conf.Indent))
			return
		}
		if !p.amount || p.status != "" {
			continue
		}
		acct := p.account
		switch p.kind {
		case gmodel.KindVirtual:
			acct = "(" + acct + ")"
		case gmodel.KindBalanced:
			acct = "[" + acct + "]"
		}
		i := strings.Index(l, acct)
		if i < 0 {
			continue // the meaning clause (C04) reports lost accounts
		}
		rest := l[i+len(acct):]
		amtByte := i + len(acct) + (len(rest) - len(strings.TrimLeft(rest, " ")))
		amtCol := utf8.RuneCountInString(l[:amtByte])
		if col == -1 {
			col = amtCol
		} else if amtCol != col {
			viol("C05", "amounts start in one common column", "columns differ", fmt.Sprintf("line %d %q: amount column %d, others %d", p.line, l, amtCol, col))
			return
		}
	}
	if col >= 0 {
		if col < conf.Indent+longest+2 {
			viol("C05", "amount column is at least two spaces after the longest account", "column too small", fmt.Sprintf("column %d < indent %d + longest account %d + 2\n%s", col, conf.Indent, longest, out))
		}
		if col < conf.MinCol {
			viol("C05", "amount column respects the minimum column", "below minimum", fmt.Sprintf("column %d < %d", col, conf.MinCol))
		}
	}
}

var ambiguousNumber = regexp.MustCompile(`(^|[^0-9.,])([0-9]+)[.,][0-9]{3}($|[^0-9.,])`)

// hasAmbiguousNumber: some posting line carries a number with exactly one mark
// followed by exactly three digits and a non-zero integer part (outside G).
func hasAmbiguousNumber(text string) bool {
	for _, l := range strings.Split(text, "\n") {
		if !strings.HasPrefix(l, " ") && !strings.HasPrefix(l, "\t") {
			continue
		}
		for _, m := range ambiguousNumber.FindAllStringSubmatch(l, -1) {
			if strings.Trim(m[2], "0") != "" {
				return true
			}
		}
	}
	return false
}

// hasBlankOnlyLineInTransaction: a non-empty line of blanks directly after a
// transaction line and directly before an indented line.
func hasBlankOnlyLineInTransaction(text string) bool {
	lines := strings.Split(text, "\n")
	for i := 1; i+1 < len(lines); i++ {
		l := strings.TrimRight(lines[i], "\r")
		if l == "" || strings.TrimSpace(l) != "" {
			continue
		}
		prev, next := lines[i-1], lines[i+1]
		if strings.TrimSpace(prev) != "" && strings.TrimSpace(next) != "" && (next[0] == ' ' || next[0] == '\t') {
			return true
		}
	}
	return false
}

// fragments for arbitrary text (class c)
var fmtFragments = []string{"2001-01-01", " shop", "\n", "    ", "a:b", "  ", "$5", "1,2.3,4", " @ ", "@@", " = ", "; t:v", "(code", "\"quoted", "[a:b", "\t", "account ", "commodity ", "-", "1e2", "x", "\r\n", "é", "🍕"}

func checkFormat(c *core.Ctx, prop string) {
	sets := map[string]string{}
	for k, v := range fmtSets {
		sets[k] = v
	}
	configs := fmtConfigsQuick()
	if c.Thorough() {
		for k, v := range genericFormats() {
			sets[k] = v
		}
	}
	if c.Replay != nil {
		var cs fmtCase
		if err := jsonUnmarshal(c.Replay, &cs); err != nil {
			c.Res.InfraError = "bad replay: " + err.Error()
			return
		}
		conf := cs.Config
		// the stored text already contains file-declared formats
		if conf.Where == "file" {
			sets = map[string]string{conf.Format: ""}
			cs.Text = strings.TrimPrefix(cs.Text, "\n")
		}
		fs := newFmtSession(c, conf, 0, map[string]string{conf.Format: fmtSets[conf.Format]})
		if conf.Where == "file" {
			conf2 := conf
			conf2.Where = ""
			fs.conf = conf2
		}
		fmtCheckOne(c, prop, fs, sets, cs.Text, cs.Kind, cs.Devs, nil)
		return
	}
	devs := gmodel.Filter(gmodel.Deviations(), "line-end", "final-newline", "blank-lines", "trailing-header", "trailing-posting", "status", "code",
		"header-comment", "tx-comment-line", "comment-line-after-posting", "posting-count", "indent", "posting-status", "posting-kind", "account-shape", "account-len", "amount-present", "amount-sep",
		"commodity", "sign", "number", "cost", "cost-amount", "assertion", "posting-comment", "last-posting-comment", "entry-before", "desc-shape")
	c.Bound("valid journals", fmt.Sprintf("deviation bound 2 over %d deviations", len(devs)))
	c.Bound("configurations", fmt.Sprintf("%d configurations (indent 1..8, alignment on/off, minimum column {0,1,10,40,80}, %d commodity-format sets declared in the file or in a workspace file)", len(configs), len(fmtSets)))
	sessions := make([]*fmtSession, len(configs))
	for i, cf := range configs {
		sessions[i] = newFmtSession(c, cf, i, sets)
	}
	sampled := 0
	// (a) valid journals x configurations
	bound := 2
	if os.Getenv("C04_PART") == "c" {
		bound = -1
	}
	gmodel.Enumerate(gmodel.Default, devs, bound, func(j *gmodel.Journal, applied []gmodel.Dev) bool {
		text := ""
		for ci := range configs {
			// full product on <= 1 deviation, rotating configurations on 2
			if len(applied) == 3 && (ci%8 != int(c.Res.Counters["rot"])%8) {
				continue // three deviations: rotating eighth of the configurations
			}
			if !c.Mine() {
				continue
			}
			if text == "" {
				text = j.Render().Text
			}
			fmtCheckOne(c, prop, sessions[ci], sets, text, "valid", gmodel.DevNames(applied), j)
			if sampled < 2 && len(applied) == 2 {
				sampled++
				c.Sample(map[string]any{"kind": "valid", "deviations": gmodel.DevNames(applied), "config": configs[ci].String(), "text": text})
			}
		}
		c.Res.Counters["rot"]++
		return !c.Expired()
	})
	if c.Thorough() {
		focus := gmodel.Filter(devs, "commodity", "sign", "number", "cost", "cost-amount", "assertion", "posting-comment", "posting-kind", "posting-status", "account-len", "line-end", "amount-sep", "indent")
		c.Bound("valid journals (thorough)", fmt.Sprintf("additionally deviation bound 3 over %d amount/layout deviations, each with a rotating eighth of the configurations", len(focus)))
		gmodel.Enumerate(gmodel.Default, focus, 3, func(j *gmodel.Journal, applied []gmodel.Dev) bool {
			if len(applied) < 3 {
				return true
			}
			text := ""
			for ci := range configs {
				if ci%8 != int(c.Res.Counters["rot"])%8 {
					continue
				}
				if !c.Mine() {
					continue
				}
				if text == "" {
					text = j.Render().Text
				}
				fmtCheckOne(c, prop, sessions[ci], sets, text, "valid", gmodel.DevNames(applied), j)
			}
			c.Res.Counters["rot"]++
			return !c.Expired()
		})
	}
	delete(c.Res.Counters, "rot")
	// (b) damaged journals: default journal and three deviating ones, every C07 damage of the first transaction
	dmgConfigs := []int{0, 1, 2, 3}
	for _, base := range [][]string{nil, {"commodity=quoted-right"}, {"cost=@ 1/1"}, {"posting-comment=tag"}} {
		if os.Getenv("C04_PART") == "c" {
			break
		}
		j := gmodel.Default()
		for _, n := range base {
			for _, d := range gmodel.Deviations() {
				if d.String() == n {
					d.Apply(j)
				}
			}
		}
		rd := j.Render()
		ent := rd.Find("entry", 0, -2)[0]
		entryLines := rd.Lines[ent.Line : ent.EndLine+1]
		for _, d := range c07Damages(entryLines, false) {
			if d.Kind == "replace" && !c.Thorough() && d.Arg != ";" && d.Arg != "\"" && d.Arg != " " && d.Arg != "(" && d.Arg != "a" {
				continue
			}
			if d.Arg == "\xc3" {
				continue // an LSP document is a JSON string: it cannot carry invalid UTF-8
			}
			if !c.Mine() {
				continue
			}
			dl := applyDamage(entryLines, d)
			all := append([]string{}, rd.Lines[:ent.Line]...)
			all = append(all, dl...)
			all = append(all, rd.Lines[ent.EndLine+1:]...)
			text := strings.Join(all, "\n") + "\n"
			for _, ci := range dmgConfigs {
				fmtCheckOne(c, prop, sessions[ci%len(sessions)], sets, text, "damaged by "+d.class(), strings.Join(base, " & "), nil)
			}
		}
		if c.Expired() {
			return
		}
	}
	// (c) arbitrary text: all fragment sequences of length <= 3 (posting-like prefix so that lines are rewritten)
	n := len(fmtFragments)
	maxLen := 3
	var seq func(cur []int)
	seq = func(cur []int) {
		if len(cur) > 0 && c.Mine() {
			var b strings.Builder
			for _, i := range cur {
				b.WriteString(fmtFragments[i])
			}
			body := b.String()
			for _, text := range []string{body, "2001-01-01 t\n    a:b  $5 " + body + "\n    c:d\n"} {
				for _, ci := range []int{0, 5} {
					fmtCheckOne(c, prop, sessions[ci%len(sessions)], sets, text, "arbitrary text", "", nil)
				}
			}
		}
		if len(cur) == maxLen {
			return
		}
		for i := 0; i < n; i++ {
			seq(append(cur[:len(cur):len(cur)], i))
		}
	}
	seq(nil)
	if c.Thorough() {
		// full product of generic formats on deviation <= 1 journals
		gen := genericFormats()
		var gnames []string
		for k := range gen {
			gnames = append(gnames, k)
		}
		sort.Strings(gnames)
		for gi, gn := range gnames {
			if !c.MineKey(int64(gi)) {
				continue
			}
			for _, where := range []string{"file", "workspace"} {
				fs := newFmtSession(c, fmtConfig{Indent: 4, Align: true, Format: gn, Where: where}, 1000+gi, sets)
				gmodel.Enumerate(gmodel.Default, gmodel.Filter(devs, "number", "sign", "commodity", "cost", "assertion"), 1, func(j *gmodel.Journal, applied []gmodel.Dev) bool {
					fmtCheckOne(c, prop, fs, sets, j.Render().Text, "valid", gmodel.DevNames(applied), j)
					return true
				})
			}
			if c.Expired() {
				return
			}
		}
	}
}
