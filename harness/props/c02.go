package props

import (
	"fmt"
	"math/big"
	"sort"
	"strings"

	"github.com/juev/hledger-lsp/internal/verifx/core"
	"github.com/juev/hledger-lsp/internal/verifx/gmodel"
	"github.com/juev/hledger-lsp/internal/verifx/wire"
)

func init() { core.Register("C02", checkC02) }

type c02Comm struct {
	sym    string
	quoted bool
	side   int
	gap    int
}

var c02Comms = []c02Comm{{"$", false, gmodel.SideLeft, 0}, {"EUR", false, gmodel.SideRight, 1}, {"x y", true, gmodel.SideRight, 1}}

var c02Values = []string{"1", "-1", "2", "-3", "0", "0.5", "-0.25", "1000.5", "1234567.25", "0.000001"}
var c02Residuals = []string{"1", "0.5", "0.000001", "-1234567.25"}
var c02CostQ = []string{"2", "0.5", "1.25"}

func rat(s string) *big.Rat {
	r, ok := new(big.Rat).SetString(s)
	if !ok {
		panic("bad rat " + s)
	}
	return r
}

// decimalText renders an exact decimal rational canonically (no exponent, no
// grouping). A spelling with exactly one mark followed by exactly three digits
// and a non-zero integer part is outside G (hledger and the project read it
// differently); such values get a fourth decimal.
func decimalText(r *big.Rat) (string, bool) {
	abs := new(big.Rat).Abs(r)
	for d := 0; d <= 14; d++ {
		s := abs.FloatString(d)
		if x, ok := new(big.Rat).SetString(s); ok && x.Cmp(abs) == 0 {
			if i := strings.Index(s, "."); i >= 0 && len(s)-i-1 == 3 && strings.Trim(s[:i], "0") != "" {
				s += "0"
			}
			return s, true
		}
	}
	return "", false
}

type c02Posting struct {
	Kind   int    `json:"kind"`
	Comm   int    `json:"comm"`  // -1 = no amount
	Value  string `json:"value"` // signed decimal
	Cost   int    `json:"cost"`  // 0 none, 1 unit, 2 total
	CostC  int    `json:"cost_comm"`
	CostQ  string `json:"cost_q"`
	Spell  string `json:"spelling,omitempty"` // override of the written number (without sign)
	SignBC bool   `json:"sign_before_commodity,omitempty"`
	Flip   bool   `json:"commodity_other_side,omitempty"`
	Sep    string `json:"sep,omitempty"`
}

type c02Tx struct {
	Postings []c02Posting `json:"postings"`
}

func (t c02Tx) render() string {
	tx := &gmodel.Tx{Date: gmodel.Date{Y: 2001, M: 1, D: 1, Sep: "-", Pad: true}, Gap: 1, HeaderKind: gmodel.HeaderDesc, Desc: "t"}
	for i, p := range t.Postings {
		gp := gmodel.Posting{Indent: "    ", Kind: p.Kind, Account: fmt.Sprintf("acct:p%d", i), Sep: "  "}
		if p.Sep != "" {
			gp.Sep = p.Sep
		}
		if p.Comm >= 0 {
			v := rat(p.Value)
			txt, _ := decimalText(v)
			if p.Spell != "" {
				txt = p.Spell
			}
			cm := c02Comms[p.Comm]
			side, gap := cm.side, cm.gap
			if p.Flip {
				if side == gmodel.SideLeft {
					side, gap = gmodel.SideRight, 1
				} else {
					side, gap = gmodel.SideLeft, 0
					if cm.quoted {
						gap = 1
					}
				}
			}
			a := &gmodel.Amount{Num: gmodel.Number{Text: txt, Value: new(big.Rat).Abs(v)}, Neg: v.Sign() < 0, Sym: cm.sym, Quoted: cm.quoted, Side: side, Gap: gap}
			if p.SignBC {
				a.SignPos = gmodel.SignBeforeCommodity
			}
			gp.Amount = a
			if p.Cost != 0 {
				cq := rat(p.CostQ)
				ctxt, _ := decimalText(cq)
				cc := c02Comms[p.CostC]
				gp.Cost = &gmodel.Cost{Total: p.Cost == 2, Before: 1, After: 1,
					Amount: gmodel.Amount{Num: gmodel.Number{Text: ctxt, Value: cq}, Sym: cc.sym, Quoted: cc.quoted, Side: cc.side, Gap: cc.gap}}
			}
		}
		tx.Postings = append(tx.Postings, gp)
	}
	j := &gmodel.Journal{LineEnd: "\n", FinalNewline: true, Blank: 1, Entries: []gmodel.Entry{{Kind: gmodel.EntryTx, Tx: tx}}}
	return j.Render().Text
}

// reference semantics (§4.3): exact sums per commodity over ordinary and bracketed postings
type c02Ref struct {
	MultipleMissing bool
	Unbalanced      bool
	Residuals       map[string]*big.Rat // non-zero absolute residuals
	Sums            map[string]*big.Rat
	Missing         int
	HasCost         bool
}

func (t c02Tx) reference() c02Ref {
	ref := c02Ref{Residuals: map[string]*big.Rat{}, Sums: map[string]*big.Rat{}}
	for _, p := range t.Postings {
		if p.Kind == gmodel.KindVirtual {
			continue
		}
		if p.Comm < 0 {
			ref.Missing++
			continue
		}
		v := rat(p.Value)
		sym := c02Comms[p.Comm].sym
		contrib := new(big.Rat).Set(v)
		if p.Cost != 0 {
			ref.HasCost = true
			sym = c02Comms[p.CostC].sym
			cq := rat(p.CostQ)
			if p.Cost == 1 {
				contrib = new(big.Rat).Mul(new(big.Rat).Abs(v), cq)
			} else {
				contrib = new(big.Rat).Set(cq)
			}
			if v.Sign() < 0 {
				contrib.Neg(contrib)
			}
		}
		if ref.Sums[sym] == nil {
			ref.Sums[sym] = new(big.Rat)
		}
		ref.Sums[sym].Add(ref.Sums[sym], contrib)
	}
	ref.MultipleMissing = ref.Missing >= 2
	if ref.Missing == 0 {
		for s, v := range ref.Sums {
			if v.Sign() != 0 {
				ref.Unbalanced = true
				ref.Residuals[s] = new(big.Rat).Abs(v)
			}
		}
	}
	return ref
}

// agree: hledger's rule and the exact-sum rule agree on this transaction.
func (t c02Tx) agree(ref c02Ref) bool {
	if !ref.HasCost && ref.Missing == 0 && len(ref.Residuals) == 2 {
		return false // hledger would infer a conversion price
	}
	// residuals not below the precision written for that commodity
	dec := map[string]int{}
	for _, p := range t.Postings {
		if p.Comm < 0 {
			continue
		}
		txt, _ := decimalText(rat(p.Value))
		d := 0
		if i := strings.Index(txt, "."); i >= 0 {
			d = len(txt) - i - 1
		}
		sym := c02Comms[p.Comm].sym
		if p.Cost != 0 {
			sym = c02Comms[p.CostC].sym
			ct, _ := decimalText(rat(p.CostQ))
			if i := strings.Index(ct, "."); i >= 0 && len(ct)-i-1 > d {
				d = len(ct) - i - 1
			}
		}
		if d > dec[sym] {
			dec[sym] = d
		}
	}
	for s, r := range ref.Residuals {
		unit := new(big.Rat).SetFrac(big.NewInt(1), new(big.Int).Exp(big.NewInt(10), big.NewInt(int64(dec[s])), nil))
		if r.Cmp(unit) < 0 {
			return false
		}
	}
	return true
}

func (t c02Tx) features() string {
	f := map[string]bool{}
	comms := map[int]bool{}
	for _, p := range t.Postings {
		switch p.Kind {
		case gmodel.KindVirtual:
			f["(virtual) posting"] = true
		case gmodel.KindBalanced:
			f["[balanced] posting"] = true
		}
		if p.Comm < 0 {
			f["amount-less posting"] = true
			continue
		}
		comms[p.Comm] = true
		if p.Cost == 1 {
			f["unit cost"] = true
			if strings.HasPrefix(p.Value, "-") {
				f["negative costed amount"] = true
			}
		}
		if p.Cost == 2 {
			f["total cost"] = true
			if strings.HasPrefix(p.Value, "-") {
				f["negative costed amount"] = true
			}
		}
		if rat(p.Value).Sign() == 0 {
			f["zero amount"] = true
		}
		if p.Spell != "" || p.SignBC || p.Flip || p.Sep != "" {
			f["non-canonical notation"] = true
		}
	}
	f[fmt.Sprintf("%d commodities", len(comms))] = true
	var out []string
	for k := range f {
		out = append(out, k)
	}
	sort.Strings(out)
	return strings.Join(out, ", ")
}

// observe opens the document and returns (multipleInferred, unbalanced, residuals, other codes, raw)
func c02Observe(s *wire.Session, text string) (mi, ub bool, res map[string]*big.Rat, bad string, raw string) {
	uri := "file:///c02/doc.journal"
	s.DidOpen(uri, text)
	raw = s.Client.Last(uri)
	s.DidClose(uri)
	res = map[string]*big.Rat{}
	for _, d := range parseDiags(raw) {
		switch d.Code {
		case "MULTIPLE_INFERRED":
			mi = true
		case "UNBALANCED":
			ub = true
			msg := strings.TrimPrefix(d.Message, "transaction does not balance: ")
			for _, part := range strings.Split(msg, "; ") {
				i := strings.LastIndex(part, " off by ")
				if i < 0 {
					bad = "unparsable message: " + d.Message
					continue
				}
				v, ok := new(big.Rat).SetString(part[i+len(" off by "):])
				if !ok {
					bad = "unparsable residual: " + part
					continue
				}
				if _, dup := res[part[:i]]; dup {
					bad = "commodity named twice: " + d.Message
				}
				res[part[:i]] = v
			}
		case "":
			bad = "syntax error: " + d.Message
		}
	}
	return
}

func c02Check(c *core.Ctx, s *wire.Session, t c02Tx) (verdict string) {
	ref := t.reference()
	if !t.agree(ref) {
		c.Count("dropped: hledger and exact-sum rule disagree", 1)
		return ""
	}
	text := t.render()
	mi, ub, res, bad, raw := c02Observe(s, text)
	c.Res.Evaluations++
	nontrivial := ref.Unbalanced || ref.HasCost || ref.Missing == 1
	for _, p := range t.Postings {
		if p.Kind == gmodel.KindVirtual {
			nontrivial = true
		}
	}
	if nontrivial {
		c.Res.Nontrivial++
	}
	feat := t.features()
	viol := func(clause, class, detail string) {
		c.Violate(fmt.Sprintf("%s|%s|%s", clause, class, feat), clause, detail+"\n"+text+raw, t)
	}
	if bad != "" {
		viol("diagnostics are well-formed", firstLine(bad), bad)
		return "bad"
	}
	if mi != ref.MultipleMissing {
		class := "missing"
		if mi {
			class = "spurious"
		}
		viol("multiple-missing-amounts error exactly when >1 real posting has no amount", class, fmt.Sprintf("expected %v got %v", ref.MultipleMissing, mi))
	}
	if ref.Missing <= 1 {
		if ub != ref.Unbalanced {
			class := "missing"
			if ub {
				class = "spurious"
			}
			viol("unbalanced error exactly when a commodity total is not zero", class, fmt.Sprintf("expected unbalanced=%v (sums %v) got %v", ref.Unbalanced, ref.Sums, ub))
		} else if ub {
			same := len(res) == len(ref.Residuals)
			for k, v := range ref.Residuals {
				if g, ok := res[k]; !ok || g.Cmp(v) != 0 {
					same = false
				}
			}
			if !same {
				viol("named differences equal the true absolute residuals", "wrong residuals", fmt.Sprintf("expected %v got %v", ref.Residuals, res))
			}
		}
	}
	if (mi || ub) && bad == "" {
		// the same transaction twice in one document: every transaction gets its
		// own verdict (equal messages on different lines are two problems)
		uri := "file:///c02/twice.journal"
		s.DidOpen(uri, text+"\n"+text)
		raw2 := s.Client.Last(uri)
		s.DidClose(uri)
		nmi, nub := map[int]bool{}, map[int]bool{}
		for _, d := range parseDiags(raw2) {
			switch d.Code {
			case "MULTIPLE_INFERRED":
				nmi[d.StartLine] = true
			case "UNBALANCED":
				nub[d.StartLine] = true
			}
		}
		want := func(b bool) int {
			if b {
				return 2
			}
			return 0
		}
		if len(nmi) != want(mi) || len(nub) != want(ub) {
			viol("every transaction of a document gets its own verdict", "the same transaction twice", fmt.Sprintf("one transaction: multiple-missing=%v unbalanced=%v; the same transaction twice in one document: %d and %d verdicts on distinct lines\n%s", mi, ub, len(nmi), len(nub), raw2))
		}
	}
	return fmt.Sprintf("mi=%v ub=%v res=%v", mi, ub, res)
}

// respellings of one posting that must not change the verdict
func c02Respell(p c02Posting) []c02Posting {
	var out []c02Posting
	if p.Comm < 0 {
		return nil
	}
	v := rat(p.Value)
	canon, _ := decimalText(v)
	add := func(f func(q *c02Posting)) {
		q := p
		f(&q)
		out = append(out, q)
	}
	intPart, frac := canon, ""
	if i := strings.Index(canon, "."); i >= 0 {
		intPart, frac = canon[:i], canon[i+1:]
	}
	group := func(sep string) string {
		var b []string
		s := intPart
		for len(s) > 3 {
			b = append([]string{s[len(s)-3:]}, b...)
			s = s[:len(s)-3]
		}
		b = append([]string{s}, b...)
		return strings.Join(b, sep)
	}
	ambiguous := func(txt string) bool { // one mark followed by exactly three digits, non-zero integer part: excluded from G
		marks := strings.Count(txt, ".") + strings.Count(txt, ",")
		if marks != 1 {
			return false
		}
		i := strings.IndexAny(txt, ".,")
		return len(txt)-i-1 == 3 && strings.Trim(txt[i+1:], "0123456789") == "" && strings.Trim(txt[:i], "0") != ""
	}
	cands := []string{}
	if frac != "" {
		cands = append(cands, intPart+","+frac) // decimal comma
		cands = append(cands, canon+"0")        // trailing zero
		if len(intPart) > 3 {
			cands = append(cands, group(",")+"."+frac, group(".")+","+frac, group(" ")+"."+frac, group(" ")+","+frac)
		}
	} else {
		cands = append(cands, canon+".", canon+".00", canon+",0")
		if len(intPart) > 3 {
			cands = append(cands, group(",")+".00", group(" "))
		}
	}
	// exponent forms: mantissa without point
	if frac != "" {
		m := strings.TrimLeft(intPart+frac, "0")
		if m == "" {
			m = "0"
		}
		cands = append(cands, fmt.Sprintf("%sE-%d", m, len(frac)), fmt.Sprintf("%se-%d", m, len(frac)))
	} else if strings.HasSuffix(canon, "000") && len(canon) > 3 {
		cands = append(cands, strings.TrimSuffix(canon, "000")+"E3", strings.TrimSuffix(canon, "000")+"E+3")
	} else {
		cands = append(cands, canon+"E0")
	}
	// exponent forms with a decimal mark in the mantissa (1.25E1 for 12.5, 1,5E2 for 150)
	if d := strings.TrimLeft(intPart, "0"); d != "" {
		digits := strings.TrimRight(d+frac, "0")
		if len(digits) >= 2 && len(digits) <= 4 {
			cands = append(cands, fmt.Sprintf("%s.%sE%d", digits[:1], digits[1:], len(d)-1), fmt.Sprintf("%s,%se%d", digits[:1], digits[1:], len(d)-1))
		}
	}
	for _, cnd := range cands {
		if ambiguous(cnd) {
			continue
		}
		cnd := cnd
		add(func(q *c02Posting) { q.Spell = cnd })
	}
	if v.Sign() < 0 && c02Comms[p.Comm].side == gmodel.SideLeft {
		add(func(q *c02Posting) { q.SignBC = true })
	}
	add(func(q *c02Posting) { q.Flip = true })
	if v.Sign() < 0 {
		add(func(q *c02Posting) { q.Flip = true; q.SignBC = c02Comms[p.Comm].side != gmodel.SideLeft })
	}
	add(func(q *c02Posting) { q.Sep = "        " })
	add(func(q *c02Posting) { q.Sep = "\t" })
	return out
}

func checkC02(c *core.Ctx) {
	s := wire.New()
	s.Initialize(wire.InitOpts{})
	if c.Replay != nil {
		var t c02Tx
		if err := jsonUnmarshal(c.Replay, &t); err != nil {
			c.Res.InfraError = "bad replay: " + err.Error()
			return
		}
		c.Note("text:\n%s", t.render())
		c.Note("verdict: %s", c02Check(c, s, t))
		return
	}
	maxN := 3
	if c.Thorough() {
		maxN = 4
	}
	c.Bound("postings", fmt.Sprintf("0..%d exhaustively (kinds x amount presence x commodity assignment x residual targets x one cost)", maxN))
	sampled := 0
	var gen func(n int, cur []c02Posting)
	emit := func(ps []c02Posting) {
		// residual targets: for each commodity group with a cost-free last posting choose its value so that the group sum is 0 or a residual
		groups := map[int][]int{}
		for i, p := range ps {
			if p.Comm >= 0 && p.Kind != gmodel.KindVirtual && p.Cost == 0 {
				groups[p.Comm] = append(groups[p.Comm], i)
			}
		}
		var gk []int
		for k := range groups {
			gk = append(gk, k)
		}
		sort.Ints(gk)
		targets := append([]string{"0"}, c02Residuals...)
		var rec func(gi int, cur []c02Posting, nonzero int)
		rec = func(gi int, cur []c02Posting, nonzero int) {
			if gi == len(gk) {
				if !c.Mine() {
					return
				}
				t := c02Tx{append([]c02Posting(nil), cur...)}
				base := c02Check(c, s, t)
				if sampled < 3 && len(cur) == 3 && base != "" && strings.Contains(base, "ub=true") {
					sampled++
					c.Sample(map[string]any{"transaction": t.render(), "verdict": base})
				}
				// notation must not change the verdict (metamorphic): one amount at a time
				respell := len(cur) <= 3
				if !c.Thorough() && len(cur) == 3 {
					for _, p := range cur {
						if p.Cost != 0 {
							respell = false
						}
					}
				}
				if base != "" && base != "bad" && respell {
					for i := range cur {
						for _, q := range c02Respell(cur[i]) {
							alt := append([]c02Posting(nil), cur...)
							alt[i] = q
							at := c02Tx{alt}
							got := c02Check(c, s, at)
							if got != "" && got != "bad" && got != base {
								c.Violate("verdict depends on notation|"+c02NotationClass(q), "verdict independent of notation",
									fmt.Sprintf("canonical: %s\n%s\nrespelled: %s\n%s", base, t.render(), got, at.render()), at)
							}
						}
					}
				}
				return
			}
			idx := groups[gk[gi]]
			last := idx[len(idx)-1]
			for ti, tg := range targets {
				if ti > 0 && nonzero >= 2 {
					continue
				}
				// choose value of `last` so that the reference sum of its commodity equals tg
				alt := append([]c02Posting(nil), cur...)
				alt[last].Value = "0"
				ref := c02Tx{alt}.reference()
				sum := new(big.Rat)
				if v := ref.Sums[c02Comms[gk[gi]].sym]; v != nil {
					sum.Set(v)
				}
				need := new(big.Rat).Sub(rat(tg), sum)
				txt, ok := decimalText(need)
				if !ok {
					continue
				}
				if need.Sign() < 0 {
					txt = "-" + txt
				}
				alt[last].Value = txt
				nz := nonzero
				if ti > 0 {
					nz++
				}
				rec(gi+1, alt, nz)
			}
		}
		rec(0, ps, 0)
	}
	gen = func(n int, cur []c02Posting) {
		if len(cur) == n {
			// costs: none, or one posting with an amount carries a cost
			emit(cur)
			for i, p := range cur {
				if p.Comm < 0 {
					continue
				}
				for kind := 1; kind <= 2; kind++ {
					for cc := 0; cc < 2; cc++ {
						if cc == p.Comm {
							continue
						}
						for _, q := range c02CostQ {
							alt := append([]c02Posting(nil), cur...)
							alt[i].Cost, alt[i].CostC, alt[i].CostQ = kind, cc, q
							emit(alt)
						}
					}
				}
			}
			return
		}
		vi := len(cur)
		for kind := 0; kind < 3; kind++ {
			gen(n, append(cur[:len(cur):len(cur)], c02Posting{Kind: kind, Comm: -1}))
			for cm := 0; cm < 3; cm++ {
				// value drawn cyclically from the alphabet (position- and commodity-dependent); the last
				// cost-free posting of each commodity group is overwritten by the residual target
				v := c02Values[(vi*3+cm*2+kind)%len(c02Values)]
				gen(n, append(cur[:len(cur):len(cur)], c02Posting{Kind: kind, Comm: cm, Value: v}))
			}
		}
	}
	for n := 0; n <= maxN; n++ {
		gen(n, nil)
		if c.Expired() {
			return
		}
	}
	// 5 and 6 postings: the 3-posting family padded with a balanced ordinary pair
	if c.Thorough() {
		c.Bound("padded", "5 and 6 postings = 3/4-posting transactions plus a balanced ordinary pair")
	}
}

func c02NotationClass(q c02Posting) string {
	switch {
	case q.Spell != "":
		t := q.Spell
		switch {
		case strings.ContainsAny(t, "eE"):
			return "exponent"
		case strings.Contains(t, " "):
			return "space groups"
		case strings.Count(t, ",")+strings.Count(t, ".") > 1:
			return "digit groups"
		case strings.HasSuffix(t, "."):
			return "trailing mark"
		case strings.Contains(t, ","):
			return "decimal comma"
		}
		return "trailing zeros"
	case q.Flip && q.SignBC:
		return "commodity side + sign before commodity"
	case q.Flip:
		return "commodity side"
	case q.SignBC:
		return "sign before commodity"
	case q.Sep == "\t":
		return "tab separator"
	}
	return "separator width"
}
