package props

import (
	"encoding/json"
	"fmt"
	"os"
	"path/filepath"
	"regexp"
	"sort"
	"strings"

	"github.com/juev/hledger-lsp/internal/verifx/core"
	"github.com/juev/hledger-lsp/internal/verifx/gmodel"
	"github.com/juev/hledger-lsp/internal/verifx/refbuf"
	"github.com/juev/hledger-lsp/internal/verifx/wire"
)

func init() { core.Register("C08", checkC08) }

type lspPos struct {
	Line int `json:"line"`
	Char int `json:"character"`
}
type lspRange struct {
	Start lspPos `json:"start"`
	End   lspPos `json:"end"`
}

func (r lspRange) String() string {
	return fmt.Sprintf("%d:%d-%d:%d", r.Start.Line, r.Start.Char, r.End.Line, r.End.Char)
}

// found range with the document it refers to and where in the result it was found
type foundRange struct {
	URI   string
	Range lspRange
	Path  string
}

// walkRanges collects every Range in a decoded JSON value. uri is the document
// the value refers to unless a Location / WorkspaceEdit says otherwise.
func walkRanges(v any, uri, path string, out *[]foundRange) {
	switch x := v.(type) {
	case map[string]any:
		if isRange(x) {
			*out = append(*out, foundRange{uri, toRange(x), path})
			return
		}
		u := uri
		if s, ok := x["uri"].(string); ok {
			u = s
		}
		if s, ok := x["targetUri"].(string); ok {
			u = s
		}
		if ch, ok := x["changes"].(map[string]any); ok {
			for k, edits := range ch {
				walkRanges(edits, k, path+".changes", out)
			}
		}
		var ks []string
		for k := range x {
			ks = append(ks, k)
		}
		sort.Strings(ks)
		for _, k := range ks {
			if k == "changes" {
				continue
			}
			walkRanges(x[k], u, path+"."+k, out)
		}
	case []any:
		for _, e := range x {
			walkRanges(e, uri, path+"[]", out)
		}
	}
}

func isRange(m map[string]any) bool {
	s, ok1 := m["start"].(map[string]any)
	e, ok2 := m["end"].(map[string]any)
	if !ok1 || !ok2 {
		return false
	}
	_, a := s["line"]
	_, b := e["line"]
	return a && b
}

func num(v any) int {
	switch x := v.(type) {
	case float64:
		if x > 1e9 {
			return 1 << 31
		}
		return int(x)
	case json.Number:
		f, _ := x.Float64()
		if f > 1e9 {
			return 1 << 31
		}
		return int(f)
	}
	return 0
}

func toRange(m map[string]any) lspRange {
	s := m["start"].(map[string]any)
	e := m["end"].(map[string]any)
	return lspRange{lspPos{num(s["line"]), num(s["character"])}, lspPos{num(e["line"]), num(e["character"])}}
}

// wellFormed validates a range against the text of its document (§4.5).
func wellFormed(r lspRange, b *refbuf.Buffer) string {
	check := func(p lspPos, isEnd bool) string {
		n := b.LineCount()
		if p.Line >= n {
			return "line outside the document"
		}
		if p.Char > b.LineLen(p.Line) {
			return "character past the end of the line"
		}
		if b.InsideSurrogatePair(refbuf.Pos{Line: p.Line, Char: p.Char}) {
			return "position splits a surrogate pair"
		}
		return ""
	}
	if m := check(r.Start, false); m != "" {
		return "start: " + m
	}
	if m := check(r.End, true); m != "" {
		return "end: " + m
	}
	if r.End.Line < r.Start.Line || (r.End.Line == r.Start.Line && r.End.Char < r.Start.Char) {
		return "start after end"
	}
	return ""
}

type c08Scenario struct {
	Main string           // rendered main document (open)
	Rd   *gmodel.Rendered // its position map
	J    *gmodel.Journal
	Inc  *gmodel.Rendered // included file (on disk), may be nil
	Devs string
}

type c08Case struct {
	Devs    string `json:"deviations"`
	Text    string `json:"text"`
	Feature string `json:"feature"`
	Line    int    `json:"line"`
	Char    int    `json:"character"`
	// IncEdited: the included file is open with unsaved edits (its saved text
	// has five more lines at the top)
	IncEdited bool `json:"included_file_open_with_unsaved_edits,omitempty"`
	// Discarded: an unsaved edit of the included file was looked at and discarded
	Discarded bool `json:"edit_of_included_file_discarded,omitempty"`
}

var hoverKind = regexp.MustCompile("^\\*\\*(Account|Amount|Payee|Date|Tag):\\*\\* ?`?([^`\n]*)`?")

// spanMatches: does range r equal the span's UTF-16 extent on its line?
func spanIs(r lspRange, s gmodel.Span) bool {
	return r.Start.Line == s.Line && r.End.Line == s.Line && r.Start.Char == s.U0 && r.End.Char == s.U1
}

func entryIs(r lspRange, s gmodel.Span, lines []string) bool {
	if r.Start.Line != s.Line || r.Start.Char != 0 {
		return false
	}
	// end of the last line, or start of the following line
	if r.End.Line == s.EndLine && r.End.Char == s.U1 {
		return true
	}
	// ... or the end of the last line's text: the property does not say whether
	// blanks after the last lexeme belong to the entry
	if s.EndLine < len(lines) && r.End.Line == s.EndLine && r.End.Char == u16(strings.TrimRight(lines[s.EndLine], " \t")) {
		return true
	}
	return r.End.Line == s.EndLine+1 && r.End.Char == 0
}

// landmark describes where a position falls, in model terms (for signatures).
func landmark(rd *gmodel.Rendered, p lspPos) string {
	best := "outside every element"
	bestW := 1 << 30
	for _, s := range rd.Spans {
		if s.Kind == "entry" || s.Kind == "posting" {
			continue
		}
		if s.Line != p.Line {
			continue
		}
		name := s.Kind
		if s.Role != "" && s.Role != "posting" && s.Role != "header" {
			name = s.Role + " " + s.Kind
		}
		switch {
		case p.Char == s.U0:
			return "start(" + name + ")"
		case p.Char == s.U1:
			if s.U1-s.U0 < bestW {
				best, bestW = "end("+name+")", s.U1-s.U0
			}
		case p.Char > s.U0 && p.Char < s.U1:
			if s.U1-s.U0 < bestW {
				best, bestW = "inside("+name+")", s.U1-s.U0
			}
		}
	}
	if p.Line < len(rd.Lines) && best == "outside every element" {
		if p.Char >= u16(rd.Lines[p.Line]) {
			return "end of line"
		}
		return "between elements"
	}
	return best
}

func u16(s string) int {
	n := 0
	for _, r := range s {
		if r >= 0x10000 {
			n += 2
		} else {
			n++
		}
	}
	return n
}

func rangeClass(rd *gmodel.Rendered, r lspRange) string {
	if r.End.Line > 1<<30 || r.End.Char > 1<<30 {
		return landmark(rd, r.Start) + "‥(4294967295)"
	}
	if r.Start.Line != r.End.Line {
		return fmt.Sprintf("%s‥%s on line +%d", landmark(rd, r.Start), landmark(rd, r.End), r.End.Line-r.Start.Line)
	}
	return landmark(rd, r.Start) + "‥" + landmark(rd, r.End)
}

func checkC08(c *core.Ctx) {
	if c.Replay != nil {
		var cs c08Case
		if err := jsonUnmarshal(c.Replay, &cs); err != nil {
			c.Res.InfraError = "bad replay: " + err.Error()
			return
		}
		c08Discarded = cs.Discarded
		c08Pass(c, cs.IncEdited)
		return
	}
	c08Pass(c, false)
	if !c.Expired() {
		// the same sweep with the included file open and edited without saving
		c08Pass(c, true)
	}
	if !c.Expired() {
		// and after such an edit was looked at and then discarded by closing the file
		c08Discarded = true
		c08Pass(c, false)
		c08Discarded = false
	}
}

// c08Discarded: before the sweep the included file was opened, edited (five
// more lines at the top), used by a cross-file request and closed unsaved.
var c08Discarded bool

func c08Pass(c *core.Ctx, incEdited bool) {
	dir := filepath.Join(c.Scratch, "c08")
	_ = os.MkdirAll(dir, 0o755)
	mainPath := filepath.Join(dir, "main.journal")
	incPath := filepath.Join(dir, "inc.journal")
	mainURI, incURI := wire.URI(mainPath), wire.URI(incPath)

	// included file: shares account, payee and commodity names with the default journal
	incJ := gmodel.Default()
	incJ.Entries[0].Tx.Date = gmodel.Date{Y: 2001, M: 2, D: 1, Sep: "-", Pad: true}
	incJ.Entries = incJ.Entries[:1]
	incJ.Entries = append([]gmodel.Entry{{Kind: gmodel.EntryAccount, Account: "expenses:food"}, {Kind: gmodel.EntryCommodity, Sym: "$", Format: "$1,000.00"}}, incJ.Entries...)
	incRd := incJ.Render()
	incDisk := incRd.Text
	if incEdited {
		incDisk = "; saved 1\n; saved 2\n; saved 3\n; saved 4\n; saved 5\n" + incRd.Text
	}
	_ = os.WriteFile(incPath, []byte(incDisk), 0o644)

	emphasis := []string{"desc-shape", "header-kind", "note-shape", "pipe-blanks", "code", "status", "header-gap", "date2", "date-sep", "date-pad",
		"account-shape", "commodity", "sign", "number", "cost", "cost-amount", "assertion", "posting-comment", "header-comment", "tx-comment-line", "comment-line-after-posting", "last-posting-comment",
		"posting-kind", "posting-status", "blank-lines", "entry-before", "entry-between", "line-end", "indent", "amount-sep", "posting-count", "amount-present", "shared-names", "final-newline", "trailing-posting", "trailing-header"}
	devs := gmodel.Filter(gmodel.Deviations(), emphasis...)

	s := wire.New()
	s.Initialize(wire.InitOpts{})
	s.Initialized()
	modeTag := ""
	discardText, discardSwept := "", false
	if c08Discarded {
		shifted := "; unsaved 1\n; unsaved 2\n; unsaved 3\n; unsaved 4\n; unsaved 5\n" + incRd.Text
		dj := gmodel.Default()
		dtext := "include inc.journal\n\n" + dj.Render().Text
		_ = os.WriteFile(mainPath, []byte(dtext), 0o644)
		discardText = dtext
		s.DidOpen(mainURI, dtext)
		s.DidOpen(incURI, incRd.Text)
		s.DidChangeFull(incURI, shifted, 2)
		for _, sp := range dj.Render().Spans {
			if sp.Kind == "account" {
				s.Call("textDocument/references", fmt.Sprintf(`{"textDocument":{"uri":%s},"position":{"line":%d,"character":%d},"context":{"includeDeclaration":true}}`, wire.Q(mainURI), sp.Line+2, sp.U0))
				break
			}
		}
		s.DidClose(incURI)
		modeTag = "|after an unsaved edit of the included file was discarded"
		// main stays open: it is not analysed again before the first journal of the sweep replaces its text
	}
	if incEdited {
		s.DidOpen(incURI, incDisk)
		s.DidChangeFull(incURI, incRd.Text, 2)
		modeTag = "|included file open with unsaved edits"
	}

	evalCache := map[string]map[string]bool{} // devnames -> set of violation keys (for tainting)
	var current map[string]bool

	run := func(j *gmodel.Journal, applied []gmodel.Dev, record bool) {
		// main = "include inc.journal" + journal
		withInc := &gmodel.Journal{LineEnd: j.LineEnd, FinalNewline: j.FinalNewline, Blank: j.Blank}
		withInc.Entries = append([]gmodel.Entry{{Kind: gmodel.EntryInclude, Path: "inc.journal"}}, j.Entries...)
		rd := withInc.Render()
		text := rd.Text
		_ = os.WriteFile(mainPath, []byte(text), 0o644)
		if c08Discarded && !discardSwept && text == discardText {
			// the document is still open from the discarded-edit prelude: it is
			// swept as it is, without a new analysis
			discardSwept = true
		} else {
			if incEdited {
				// the included file's unsaved edit arrives after this document's
				// analysis (which sees the earlier text, five lines longer): requests
				// must still see the included file as the editor shows it now
				s.DidChangeFull(incURI, incDisk, 3)
				s.DidOpen(mainURI, text)
				s.DidChangeFull(incURI, incRd.Text, 4)
			} else {
				s.DidOpen(mainURI, text)
			}
		}
		bufs := map[string]*refbuf.Buffer{mainURI: refbuf.New(text), incURI: refbuf.New(incRd.Text)}
		rds := map[string]*gmodel.Rendered{mainURI: rd, incURI: incRd}
		devNames := gmodel.DevNames(applied)

		report := func(feature, clause, class, detail string, line, char int) {
			key := feature + "|" + clause + "|" + class
			current[key] = true
			if !record {
				return
			}
			// tainting: the same (feature, clause, class) already fails with a proper subset of the deviations
			n := len(applied)
			for mask := 0; mask < (1<<n)-1; mask++ {
				var sub []gmodel.Dev
				for i := 0; i < n; i++ {
					if mask&(1<<i) != 0 {
						sub = append(sub, applied[i])
					}
				}
				if evalCache[gmodel.DevNames(sub)][key] {
					c.Count("violations charged to a subset of the deviations", 1)
					return
				}
			}
			c.Violate(fmt.Sprintf("%s|%s|%s|%s%s", feature, clause, class, devNames, modeTag), feature+": "+clause,
				fmt.Sprintf("%s at %d:%d\n%s\n--- document:\n%s", feature, line, char, detail, text), c08Case{devNames, text, feature, line, char, incEdited, c08Discarded})
		}

		validate := func(feature string, res string, line, char int) []foundRange {
			if res == "" || res == "null" {
				return nil
			}
			var v any
			if err := json.Unmarshal([]byte(res), &v); err != nil {
				return nil
			}
			var frs []foundRange
			walkRanges(v, mainURI, "", &frs)
			for _, fr := range frs {
				b, ok := bufs[fr.URI]
				if !ok {
					report(feature, "range refers to a known document", "unknown uri", fr.URI, line, char)
					continue
				}
				if msg := wellFormed(fr.Range, b); msg != "" {
					report(feature, "range lies inside its document", msg+" ["+rangeClass(rds[fr.URI], fr.Range)+"]", fmt.Sprintf("%s range %s in %s: %s", fr.Path, fr.Range, filepath.Base(fr.URI), msg), line, char)
				}
			}
			return frs
		}
		// on-target helper: range must equal the span of an element of one of the kinds (and name)
		onTarget := func(feature string, fr foundRange, kinds []string, name string, cursor *lspPos, line, char int) {
			rdx := rds[fr.URI]
			if rdx == nil {
				return
			}
			okSpan := false
			for _, sp := range rdx.Spans {
				match := false
				for _, k := range kinds {
					if sp.Kind == k {
						match = true
					}
				}
				if !match {
					continue
				}
				if name != "" && sp.Name != name && sp.Text != name {
					continue
				}
				is := false
				if sp.Kind == "entry" {
					is = entryIs(fr.Range, sp, rdx.Lines)
				} else {
					is = spanIs(fr.Range, sp)
				}
				if is {
					if cursor != nil && sp.Kind != "entry" && fr.URI == mainURI && !(cursor.Line == sp.Line && cursor.Char >= sp.U0 && cursor.Char <= sp.U1) {
						continue
					}
					okSpan = true
					break
				}
			}
			if !okSpan {
				report(feature, "range covers exactly the "+strings.Join(kinds, "/"), rangeClass(rdx, fr.Range),
					fmt.Sprintf("%s range %s (%s) for %v %q in %s", fr.Path, fr.Range, rangeClass(rdx, fr.Range), kinds, name, filepath.Base(fr.URI)), line, char)
			}
		}

		// ---- once per document ----
		c.Res.Evaluations++
		diag := s.Client.Last(mainURI)
		validate("diagnostics", diag, -1, -1)
		for _, d := range parseDiags(diag) {
			fr := foundRange{mainURI, lspRange{lspPos{d.StartLine, d.StartChar}, lspPos{d.EndLine, d.EndChar}}, "diagnostic " + d.Code}
			switch d.Code {
			case "UNBALANCED", "MULTIPLE_INFERRED":
				onTarget("diagnostics", fr, []string{"entry"}, "", nil, -1, -1)
			case "UNDECLARED_ACCOUNT":
				onTarget("diagnostics", fr, []string{"posting", "account"}, "", nil, -1, -1)
			case "UNDECLARED_COMMODITY":
				onTarget("diagnostics", fr, []string{"commodity"}, "", nil, -1, -1)
			}
		}
		sym := s.Call("textDocument/documentSymbol", wire.Doc(mainURI))
		symRanges := validate("documentSymbol", sym.Result, -1, -1)
		var outline []lspRange
		for _, fr := range symRanges {
			if strings.HasSuffix(fr.Path, ".range") {
				onTarget("documentSymbol", fr, []string{"entry"}, "", nil, -1, -1)
				outline = append(outline, fr.Range)
			}
		}
		for a := 0; a < len(outline); a++ {
			for b := a + 1; b < len(outline); b++ {
				if partialOverlap(outline[a], outline[b]) {
					report("documentSymbol", "outline symbols of different entries never partially overlap", "partial overlap", fmt.Sprintf("%s and %s", outline[a], outline[b]), -1, -1)
				}
			}
		}
		for _, q := range []string{"", "a"} {
			ws := s.Call("workspace/symbol", `{"query":`+wire.Q(q)+`}`)
			for _, fr := range validate("workspace/symbol", ws.Result, -1, -1) {
				onTarget("workspace/symbol", fr, []string{"account", "commodity", "payee", "description"}, "", nil, -1, -1)
			}
		}
		links := s.Call("textDocument/documentLink", wire.Doc(mainURI))
		for _, fr := range validate("documentLink", links.Result, -1, -1) {
			onTarget("documentLink", fr, []string{"includepath"}, "", nil, -1, -1)
		}
		folds := s.Call("textDocument/foldingRange", wire.Doc(mainURI))
		var fl []struct{ StartLine, EndLine int }
		_ = json.Unmarshal([]byte(folds.Result), &fl)
		nlines := bufs[mainURI].LineCount()
		for i, f := range fl {
			if f.StartLine >= nlines || f.EndLine >= nlines || f.EndLine < f.StartLine {
				report("foldingRange", "range lies inside its document", "fold outside the document", fmt.Sprintf("fold %d..%d, %d lines", f.StartLine, f.EndLine, nlines), -1, -1)
			}
			for k := i + 1; k < len(fl); k++ {
				g := fl[k]
				// closed line intervals: disjoint or nested
				disjoint := f.EndLine < g.StartLine || g.EndLine < f.StartLine
				nested := (f.StartLine <= g.StartLine && g.EndLine <= f.EndLine) || (g.StartLine <= f.StartLine && f.EndLine <= g.EndLine)
				if !disjoint && !nested {
					report("foldingRange", "fold regions of different entries never partially overlap", "folds share a line", fmt.Sprintf("%d..%d and %d..%d", f.StartLine, f.EndLine, g.StartLine, g.EndLine), -1, -1)
				}
			}
		}

		// ---- every cursor position of every line ----
		for line := range rd.Lines {
			n := u16(rd.Lines[line])
			for ch := 0; ch <= n; ch++ {
				if bufs[mainURI].InsideSurrogatePair(refbuf.Pos{Line: line, Char: ch}) {
					continue
				}
				cur := lspPos{line, ch}
				c.Res.Evaluations++
				hv := s.Call("textDocument/hover", wire.DocPos(mainURI, line, ch))
				if frs := validate("hover", hv.Result, line, ch); len(frs) > 0 {
					var h struct {
						Contents struct{ Value string }
					}
					_ = json.Unmarshal([]byte(hv.Result), &h)
					kinds, name := []string{}, ""
					if m := hoverKind.FindStringSubmatch(h.Contents.Value); m != nil {
						switch m[1] {
						case "Account":
							kinds, name = []string{"account"}, m[2]
						case "Amount":
							kinds = []string{"amount"}
						case "Payee":
							kinds, name = []string{"payee", "description"}, strings.TrimSpace(m[2])
						case "Date":
							kinds = []string{"date"}
						case "Tag":
							kinds, name = []string{"tagname", "tagvalue"}, m[2]
							if strings.Contains(h.Contents.Value, "**Value:**") {
								kinds, name = []string{"tagvalue"}, ""
							} else {
								kinds = []string{"tagname", "tagword"}
							}
						}
					}
					if len(kinds) > 0 {
						onTarget("hover", frs[0], kinds, name, &cur, line, ch)
					}
				}
				pr := s.Call("textDocument/prepareRename", wire.DocPos(mainURI, line, ch))
				for _, fr := range validate("prepareRename", pr.Result, line, ch) {
					onTarget("prepareRename", fr, []string{"account", "commodity", "payee", "description"}, "", &cur, line, ch)
				}
				df := s.Call("textDocument/definition", wire.DocPos(mainURI, line, ch))
				for _, fr := range validate("definition", df.Result, line, ch) {
					onTarget("definition", fr, []string{"entry", "account", "commodity", "payee", "description"}, "", nil, line, ch)
				}
				for _, decl := range []bool{true, false} {
					rf := s.Call("textDocument/references", fmt.Sprintf(`{"textDocument":{"uri":%s},"position":{"line":%d,"character":%d},"context":{"includeDeclaration":%v}}`, wire.Q(mainURI), line, ch, decl))
					for _, fr := range validate("references", rf.Result, line, ch) {
						onTarget("references", fr, []string{"account", "commodity", "payee", "description"}, "", nil, line, ch)
					}
				}
				rn := s.Call("textDocument/rename", fmt.Sprintf(`{"textDocument":{"uri":%s},"position":{"line":%d,"character":%d},"newName":"renamed:thing"}`, wire.Q(mainURI), line, ch))
				for _, fr := range validate("rename", rn.Result, line, ch) {
					onTarget("rename", fr, []string{"account", "commodity", "payee", "description"}, "", nil, line, ch)
				}
				cp := s.Call("textDocument/completion", wire.DocPos(mainURI, line, ch))
				for _, fr := range validate("completion", cp.Result, line, ch) {
					if fr.Range.End != cur || fr.Range.Start.Line != line || fr.Range.Start.Char > ch {
						report("completion", "edit range ends at the cursor and starts on the same line at or before it", "range not anchored at the cursor", fmt.Sprintf("range %s cursor %d:%d", fr.Range, line, ch), line, ch)
						break
					}
				}
				ic := s.Call("textDocument/inlineCompletion", wire.DocPos(mainURI, line, ch))
				for _, fr := range validate("inlineCompletion", ic.Result, line, ch) {
					if fr.Range.End != cur || fr.Range.Start.Line != line || fr.Range.Start.Char > ch {
						report("inlineCompletion", "edit range ends at the cursor and starts on the same line at or before it", "range not anchored at the cursor", fmt.Sprintf("range %s cursor %d:%d", fr.Range, line, ch), line, ch)
						break
					}
				}
			}
		}
		s.DidClose(mainURI)
	}

	if c.Replay != nil {
		var cs c08Case
		if err := jsonUnmarshal(c.Replay, &cs); err != nil {
			c.Res.InfraError = "bad replay: " + err.Error()
			return
		}
		var applied []gmodel.Dev
		for _, d := range gmodel.Deviations() {
			for _, n := range strings.Split(cs.Devs, " & ") {
				if d.String() == n {
					applied = append(applied, d)
				}
			}
		}
		j := gmodel.Default()
		for _, d := range applied {
			d.Apply(j)
		}
		current = map[string]bool{}
		run(j, applied, true)
		return
	}

	bound := 1
	if c.Thorough() {
		bound = 2
	}
	c.Bound("journals", fmt.Sprintf("default journal + include line + included file; deviation bound %d over %d deviations (quick adds the listed pairs); once with the included file closed, once with it open and edited without saving", bound, len(devs)))
	nontrivialDev := func(applied []gmodel.Dev) bool {
		for _, d := range applied {
			n := d.String()
			if strings.Contains(n, "🍕") || strings.Contains(n, "é") || strings.Contains(n, "еда") || strings.Contains(n, "café") || strings.Contains(n, "₽") || strings.Contains(n, "euro") || d.Group == "blank-lines" || strings.HasPrefix(d.Group, "entry-") {
				return true
			}
		}
		return false
	}
	sampled := 0
	evalSet := func(applied []gmodel.Dev, record bool) {
		name := gmodel.DevNames(applied)
		if _, done := evalCache[name]; done && !record {
			return
		}
		current = map[string]bool{}
		j := gmodel.Default()
		for _, d := range applied {
			d.Apply(j)
		}
		run(j, applied, record)
		evalCache[name] = current
	}
	visit := func(j *gmodel.Journal, applied []gmodel.Dev) bool {
		if !c.Mine() {
			return true
		}
		// subsets first (tainting), not recorded
		n := len(applied)
		for mask := 0; mask < (1<<n)-1; mask++ {
			var sub []gmodel.Dev
			for i := 0; i < n; i++ {
				if mask&(1<<i) != 0 {
					sub = append(sub, applied[i])
				}
			}
			evalSet(sub, false)
		}
		evalSet(applied, true)
		if nontrivialDev(applied) {
			c.Res.Nontrivial++
		}
		if sampled < 2 && len(applied) > 0 && nontrivialDev(applied) {
			sampled++
			c.Sample(map[string]any{"deviations": gmodel.DevNames(applied), "positions": "every cursor position of every line x hover, prepareRename, definition, references(+/-decl), rename, completion, inlineCompletion"})
		}
		return !c.Expired()
	}
	gmodel.Enumerate(gmodel.Default, devs, bound, visit)
	{
		// listed combinations: non-BMP text before each kind of element, adjacent
		// entries (quick: pairs that bound 1 does not reach; both tiers: triples)
		byName := map[string]gmodel.Dev{}
		for _, d := range gmodel.Deviations() {
			byName[d.String()] = d
		}
		combos := [][]string{
			{"blank-lines=0", "entry-between=comment", "comment-line-after-posting=last, tag"},
			{"blank-lines=0", "entry-after=comment", "comment-line-after-posting=last, tag"},
			{"blank-lines=0", "entry-between=comment-tag", "last-posting-comment=tag"},
			{"blank-lines=0", "entry-before=comment", "tx-comment-line=text"},
			{"blank-lines=0", "entry-between=account-subline", "comment-line-after-posting=last, tag"},
			{"line-end=CRLF", "blank-lines=0", "entry-between=comment"},
			{"line-end=CRLF", "entry-between=tx-header-only"},
			{"blank-lines=2", "entry-between=tx-header-only"},
			{"line-end=CRLF", "entry-between=tx-header-only", "desc-shape=🍕 pizza"},
		}
		if !c.Thorough() {
			combos = append(combos, [][]string{
				{"desc-shape=🍕 pizza", "header-comment=tag"}, {"desc-shape=🍕 pizza", "code=(123)"}, {"desc-shape=🍕 pizza", "status=*"},
				{"account-shape=expenses:🍕", "commodity=quoted-right"}, {"account-shape=expenses:🍕", "cost=@ 1/1"}, {"account-shape=expenses:🍕", "posting-comment=tag"},
				{"account-shape=expenses:🍕", "assertion== 1/1"}, {"account-shape=расходы:еда", "posting-comment=two-tags"},
				{"blank-lines=0", "entry-between=account"}, {"blank-lines=0", "desc-shape=🍕 pizza"}, {"posting-comment=nonascii-before-tag", "account-shape=expenses:🍕"},
				{"header-kind=payee|note", "desc-shape=🍕 pizza"}, {"header-kind=payee|note", "pipe-blanks=0/0"}, {"line-end=CRLF", "account-shape=expenses:🍕"},
				{"status=!", "code=(a b)"}, {"header-gap=2", "status=*"}, {"commodity=rub-right-nogap", "sign=negative"}, {"entry-before=commodity-quoted", "commodity=quoted-right"},
				{"blank-lines=0", "entry-between=comment"}, {"blank-lines=0", "comment-line-after-posting=last, tag"},
				{"header-kind=payee|note", "code=(123)"}, {"header-kind=payee|note", "code=(a b)"}, {"header-kind=payee|note", "date2=present"}, {"header-kind=payee|note", "date2=slash-unpadded"}, {"header-kind=payee|note", "header-gap=2"}, {"header-kind=payee|note", "status=*"},
			}...)
		}
		for _, names := range combos {
			var applied []gmodel.Dev
			ok := true
			for _, n := range names {
				d, found := byName[n]
				if !found {
					// a listed combination that names no deviation is a mistake of the harness
					c.Res.InfraError = fmt.Sprintf("listed combination not in the deviation catalogue: %v", names)
					return
				}
				applied = append(applied, d)
			}
			if !ok {
				continue
			}
			j := gmodel.Default()
			for _, d := range applied {
				d.Apply(j)
			}
			visit(j, applied)
		}
	}
}

func partialOverlap(a, b lspRange) bool {
	less := func(p, q lspPos) bool { return p.Line < q.Line || (p.Line == q.Line && p.Char < q.Char) }
	leq := func(p, q lspPos) bool { return !less(q, p) }
	disjoint := leq(a.End, b.Start) || leq(b.End, a.Start)
	nested := (leq(a.Start, b.Start) && leq(b.End, a.End)) || (leq(b.Start, a.Start) && leq(a.End, b.End))
	return !disjoint && !nested
}
