package props

import (
	"fmt"
	"os"
	"path/filepath"
	"sort"
	"strings"

	"github.com/juev/hledger-lsp/internal/include"
	"github.com/juev/hledger-lsp/internal/parser"
	"github.com/juev/hledger-lsp/internal/server"
	"github.com/juev/hledger-lsp/internal/verifx/bfs"
	"github.com/juev/hledger-lsp/internal/verifx/core"
	"github.com/juev/hledger-lsp/internal/verifx/wire"
)

func init() { core.Register("C11", checkC11) }

// c11World: graph g on N files; disk variant vector; variant 1 of file i toggles
// the edge i -> (i+1)%N and changes the transaction description.
type c11World struct {
	G      incGraph
	Broken int // 1-based index of a file whose variant 0 has a syntax error; 0 = none
}

// c11BrokenLine is an entry with a cost that lacks its number (checked at start-up
// against the parser): the file that carries it has a parse diagnostic.
const c11BrokenLine = "2001-01-09 broken\n    a:x  1 USD @\n"

func (w c11World) content(dir string, i, variant int) string {
	g := w.G
	if variant == 1 {
		j := (i + 1) % g.N
		g.Adj ^= 1 << uint(i*g.N+j)
	}
	s := g.content(dir, "", i)
	if variant == 1 {
		s = strings.Replace(s, "tx of file", "edited tx of file", 1)
	} else if w.Broken == i+1 {
		s += c11BrokenLine
	}
	return s
}

type c11Op struct {
	Kind string `json:"kind"` // load | loadc | edit | clear | limits
	File int    `json:"file"`
}

func (o c11Op) String() string {
	switch o.Kind {
	case "clear", "limits", "sizelimit":
		return o.Kind
	}
	return fmt.Sprintf("%s(f%d)", o.Kind, o.File)
}

func c11Ops(n int) []c11Op {
	var ops []c11Op
	for i := 0; i < n; i++ {
		ops = append(ops, c11Op{"load", i})
	}
	for i := 0; i < n; i++ {
		ops = append(ops, c11Op{"edit", i})
	}
	for i := 0; i < n; i++ {
		ops = append(ops, c11Op{"loadc", i})
	}
	ops = append(ops, c11Op{"clear", 0}, c11Op{"limits", 0})
	return ops
}

// c11OpsFor adds the size-limit toggle for worlds that have a file above the low limit.
func c11OpsFor(w c11World) []c11Op {
	ops := c11Ops(w.G.N)
	if w.G.BigFile >= 0 {
		ops = append(ops, c11Op{"sizelimit", 0})
	}
	return ops
}

type c11Case struct {
	Graph  incGraph `json:"graph"`
	Broken int      `json:"broken_file_1based"`
	Ops    []c11Op  `json:"ops"`
}

// loadObs renders a load result canonically.
func loadObs(dir string, res *include.ResolvedJournal, errs []include.LoadError) string {
	var b strings.Builder
	if res == nil {
		b.WriteString("nil result;")
	} else {
		if res.Primary != nil {
			b.WriteString("primary=" + journalID(res) + ";")
		}
		var ks []string
		for p, j := range res.Files {
			id := "nil"
			if j != nil {
				var inc []string
				for _, i := range j.Includes {
					inc = append(inc, i.Path)
				}
				var tx []string
				for _, t := range j.Transactions {
					tx = append(tx, t.Description)
				}
				id = strings.Join(inc, ",") + "/" + strings.Join(tx, ",")
			}
			ks = append(ks, filepath.Base(p)+"="+id)
		}
		sort.Strings(ks)
		b.WriteString("files=[" + strings.Join(ks, " ") + "];order=" + strings.Join(baseNames(res.FileOrder), ",") + ";")
	}
	var es []string
	for _, e := range errs {
		ce := classifyLoadErr(e)
		es = append(es, ce.String())
	}
	sort.Strings(es)
	b.WriteString("errors=" + strings.Join(es, ","))
	return b.String()
}

func journalID(res *include.ResolvedJournal) string {
	var tx []string
	for _, t := range res.Primary.Transactions {
		tx = append(tx, t.Description)
	}
	var inc []string
	for _, i := range res.Primary.Includes {
		inc = append(inc, i.Path)
	}
	return strings.Join(inc, ",") + "/" + strings.Join(tx, ",")
}

// c11Apply replays ops on a shared loader; returns the state key and, for the
// last op if it is a load, the observation of the shared and of a fresh loader.
func c11Apply(dir string, w c11World, ops []c11Op) (key string, shared, fresh string, hitCache bool) {
	n := w.G.N
	disk := make([]int, n)
	for i := 0; i < n; i++ {
		_ = os.WriteFile(filepath.Join(dir, incName(i)), []byte(w.content(dir, i, 0)), 0o644)
	}
	l := include.NewLoader()
	lowDepth, lowSize := false, false
	limits := func(low bool) include.Limits {
		lim := include.DefaultLimits()
		if low {
			lim.MaxIncludeDepth = 2
		}
		if lowSize {
			lim.MaxFileSizeBytes = incBigPad
		}
		return lim
	}
	for k, op := range ops {
		last := k == len(ops)-1
		path := filepath.Join(dir, incName(op.File))
		switch op.Kind {
		case "load", "loadc":
			if last {
				hitCache = len(l.VerifxCacheKeys()) > 0
			}
			var res *include.ResolvedJournal
			var errs []include.LoadError
			if op.Kind == "load" {
				res, errs = l.Load(path)
			} else {
				res, errs = l.LoadFromContent(path, w.content(dir, op.File, 1-disk[op.File]))
			}
			if last {
				shared = loadObs(dir, res, errs)
				f := include.NewLoader()
				f.SetLimits(limits(lowDepth))
				var fres *include.ResolvedJournal
				var ferrs []include.LoadError
				if op.Kind == "load" {
					fres, ferrs = f.Load(path)
				} else {
					fres, ferrs = f.LoadFromContent(path, w.content(dir, op.File, 1-disk[op.File]))
				}
				fresh = loadObs(dir, fres, ferrs)
			}
		case "edit":
			disk[op.File] = 1 - disk[op.File]
			_ = os.WriteFile(path, []byte(w.content(dir, op.File, disk[op.File])), 0o644)
			l.InvalidateFile(path)
		case "clear":
			l.ClearCache()
		case "limits":
			lowDepth = !lowDepth
			l.SetLimits(limits(lowDepth))
		case "sizelimit":
			// the size limit drops below / rises above the size of the big file
			lowSize = !lowSize
			l.SetLimits(limits(lowDepth))
		}
	}
	ci := l.VerifxCacheIncludes()
	var ck []string
	for p, inc := range ci {
		ck = append(ck, filepath.Base(p)+"="+strings.Join(inc, ","))
	}
	sort.Strings(ck)
	key = fmt.Sprintf("disk=%v low=%v lowsize=%v cache=%v", disk, lowDepth, lowSize, ck)
	return
}

func checkC11(c *core.Ctx) {
	dir := filepath.Join(c.Scratch, "c11")
	_ = os.MkdirAll(dir, 0o755)
	if c.Replay != nil {
		var sc c11SrvCase
		if err := jsonUnmarshal(c.Replay, &sc); err == nil && sc.Part == "server" {
			c11SrvRun(c, filepath.Join(c.Scratch, "c11srv"), sc.Root, sc.Ops)
			return
		}
		var mc c11MemCase
		if err := jsonUnmarshal(c.Replay, &mc); err == nil && mc.Part == "membership" {
			c11MemRun(c, filepath.Join(c.Scratch, "c11mem"), mc.Root, mc.Ops)
			return
		}
		var cs c11Case
		if err := jsonUnmarshal(c.Replay, &cs); err != nil {
			c.Res.InfraError = "bad replay: " + err.Error()
			return
		}
		_, shared, fresh, _ := c11Apply(dir, c11World{cs.Graph, cs.Broken}, cs.Ops)
		c.Note("shared loader: %s", shared)
		c.Note("fresh  loader: %s", fresh)
		if shared != fresh {
			c.Violate("replay", "load result independent of history", "shared: "+shared+"\nfresh:  "+fresh, cs)
		}
		return
	}
	c11ServerHistories(c, filepath.Join(c.Scratch, "c11srv"))
	if c.Expired() {
		return
	}
	c11MembershipHistories(c, filepath.Join(c.Scratch, "c11mem"))
	if c.Expired() {
		return
	}
	maxEdges, depth := 3, 5
	if c.Thorough() {
		maxEdges, depth = 9, 7
	}
	broken := []int{0, 2}
	if c.Thorough() {
		broken = []int{0, 1, 2, 3}
	}
	if _, perrs := parser.Parse(c11BrokenLine); len(perrs) == 0 {
		c.Res.InfraError = "the broken line of C11 no longer produces a parse diagnostic"
		return
	}
	var worlds []c11World
	for adj := uint32(0); adj < 1<<9; adj++ {
		g := incGraph{N: 3, Adj: adj, DangleI: -1, DangleJ: -1, BigFile: -1}
		if g.nedges() <= maxEdges {
			for _, br := range broken {
				worlds = append(worlds, c11World{g, br})
			}
			// one file above the low size limit (the "sizelimit" operation toggles the limit)
			if g.nedges() >= 1 && (g.nedges() <= 2 || c.Thorough()) {
				gb := g
				gb.BigFile = 1
				worlds = append(worlds, c11World{gb, 0})
			}
			// non-canonical spellings of include targets (cache keys vs InvalidateFile argument)
			if g.nedges() >= 1 && (g.nedges() <= 2 || c.Thorough()) {
				for _, form := range []string{"abs-dot", "mixed"} {
					gf := g
					gf.Form = form
					worlds = append(worlds, c11World{gf, 0})
				}
			}
		}
	}
	// named 4-file shapes: chain, diamond, cycle through depth 2, star
	named := map[string][][2]int{
		"chain4":  {{0, 1}, {1, 2}, {2, 3}},
		"diamond": {{0, 1}, {0, 2}, {1, 3}, {2, 3}},
		"cycle":   {{0, 1}, {1, 2}, {2, 1}, {2, 3}},
		"star":    {{0, 1}, {0, 2}, {0, 3}},
	}
	var names []string
	for k := range named {
		names = append(names, k)
	}
	sort.Strings(names)
	for _, k := range names {
		g := incGraph{N: 4, DangleI: -1, DangleJ: -1, BigFile: -1}
		for _, e := range named[k] {
			g.Adj |= 1 << uint(e[0]*4+e[1])
		}
		worlds = append(worlds, c11World{g, 0}, c11World{g, 4})
	}
	c.Bound("worlds", fmt.Sprintf("%d include graphs (3 files, <= %d edges, plus chain4/diamond/cycle/star on 4 files) x which file has a syntax error %v (1-based, 0 none; the edit removes it), graphs with few edges also with include targets spelled /dir/./x by all or by odd files, 2 content variants per file", len(worlds), maxEdges, broken))
	c.Bound("history depth", fmt.Sprint(depth))
	sampled := 0
	for _, w := range worlds {
		if !c.Mine() {
			continue
		}
		ops := c11OpsFor(w)
		st := bfs.Search(len(ops), depth, 200000, "init", func(path []int) (string, bool) {
			seq := make([]c11Op, len(path))
			for i, p := range path {
				seq[i] = ops[p]
			}
			key, shared, fresh, hit := c11Apply(dir, w, seq)
			c.Res.Evaluations++
			lastOp := seq[len(seq)-1]
			if lastOp.Kind == "load" || lastOp.Kind == "loadc" {
				if hit {
					c.Res.Nontrivial++
				}
				if shared != fresh {
					// signature: shape of the graph + which operation kinds precede the failing load (shortest history first)
					var kinds []string
					for _, o := range seq {
						kinds = append(kinds, o.Kind)
					}
					c.Violate(fmt.Sprintf("history-dependent load|%s|%s", strings.Join(kinds, ">"), c11DiffClass(shared, fresh)),
						"load result independent of cache history",
						fmt.Sprintf("history %v on graph %v broken=%d\nshared loader: %s\nfresh loader:  %s", seq, w.G.edgeList(), w.Broken, shared, fresh),
						c11Case{w.G, w.Broken, seq})
				} else if sampled < 2 && hit && len(seq) >= 3 {
					sampled++
					c.Sample(map[string]any{"graph": w.G.edgeList(), "history": fmt.Sprint(seq), "result": shared})
				}
			}
			return key, true
		}, c.Expired)
		c.Res.States += st.States
		c.Res.Transitions += st.Transitions
		c.Res.Traces += st.Transitions
		if !st.Exhausted {
			c.Count("worlds_depth_limited", 1)
		} else {
			c.Count("worlds_frontier_emptied", 1)
		}
		if st.StateCapHit {
			c.Cap("state cap 200000 in one world")
		}
		if int64(st.MaxDepth) > c.Res.Counters["max_depth"] {
			c.Res.Counters["max_depth"] = int64(st.MaxDepth)
		}
		if c.Expired() {
			return
		}
	}
}

func c11DiffClass(shared, fresh string) string {
	part := func(s, name string) string {
		i := strings.Index(s, name+"=")
		if i < 0 {
			return ""
		}
		rest := s[i+len(name)+1:]
		if j := strings.Index(rest, ";"); j >= 0 {
			rest = rest[:j]
		}
		return rest
	}
	var out []string
	for _, n := range []string{"primary", "files", "order", "errors"} {
		if part(shared, n) != part(fresh, n) {
			out = append(out, n)
		}
	}
	return strings.Join(out, "+") + " differ"
}

// ---- part B: the server's use of the loader across a history -----------------
//
// One server, documents P (includes X) and X. X has two versions that declare
// different accounts, so the diagnostics published for P tell which version of
// X an analysis of P saw. After every history P is analysed once more and its
// diagnostics and a hover are compared with a fresh server that is brought into
// the same final state (same files on disk, same open documents and editor
// texts) along the shortest way.

type c11SrvOp struct {
	Kind string `json:"kind"` // openP closeP touchP openX closeX changeX saveX inlineP openXother writeX
}

type c11SrvCase struct {
	Part string     `json:"part"` // "server"
	Root bool       `json:"workspace_root"`
	Ops  []c11SrvOp `json:"ops"`
}

// P ends with the header of a transaction whose payee only X knows: the inline
// completion on the line below offers X's postings for it
const c11P = "include X.journal\n\n2001-01-01 p\n    a:one  1 USD\n    a:two  -1 USD\n\n2001-03-01 xpayee\n"

func c11X(v int) string {
	if v == 0 {
		return "account a:one\n\n2001-02-01 x v0\n    a:one  1 USD\n    a:one  -1 USD\n\n2001-02-02 xpayee\n    a:one  7 USD\n    a:one  -7 USD\n"
	}
	return "account a:two\n\n2001-02-01 x v1\n    a:two  1 USD\n    a:two  -1 USD\n\n2001-02-02 xpayee\n    a:two  9 USD\n    a:two  -9 USD\n"
}

func c11SrvOps() []c11SrvOp {
	var out []c11SrvOp
	for _, k := range []string{"openP", "closeP", "touchP", "openX", "closeX", "changeX", "saveX", "inlineP", "openXother", "writeX"} {
		out = append(out, c11SrvOp{k})
	}
	return out
}

func c11SrvObserve(s *wire.Session, pu string) string {
	d := s.Client.Last(pu)
	var codes []string
	for _, dg := range parseDiags(d) {
		codes = append(codes, fmt.Sprintf("%s@%d:%s", dg.Code, dg.StartLine, dg.Message))
	}
	sort.Strings(codes)
	h := s.Call("textDocument/hover", wire.DocPos(pu, 3, 6))
	in := s.Call("textDocument/inlineCompletion", wire.DocPos(pu, strings.Count(c11P, "\n"), 0))
	return "diagnostics=" + strings.Join(codes, ",") + ";hover=" + h.Result + ";inline=" + in.Result
}

// c11SrvRun replays ops; the key is the state before the probes.
func c11SrvRun(c *core.Ctx, dir string, root bool, ops []c11SrvOp) (key string, ok bool) {
	server.VerifxResetGlobals()
	_ = os.MkdirAll(dir, 0o755)
	px, xx := filepath.Join(dir, "P.journal"), filepath.Join(dir, "X.journal")
	_ = os.WriteFile(filepath.Join(dir, "main.journal"), []byte("include P.journal\n"), 0o644)
	_ = os.WriteFile(px, []byte(c11P), 0o644)
	_ = os.WriteFile(xx, []byte(c11X(0)), 0o644)
	pu, xu := wire.URI(px), wire.URI(xx)
	newSession := func() *wire.Session {
		s := wire.New()
		r := ""
		if root {
			r = dir
		}
		s.Initialize(wire.InitOpts{Root: r})
		s.Initialized()
		return s
	}
	s := newSession()
	disk, editor, pOpen := 0, -1, false
	for _, op := range ops {
		switch op.Kind {
		case "openP":
			if pOpen {
				return "", false
			}
			pOpen = true
			s.DidOpen(pu, c11P)
		case "closeP":
			if !pOpen {
				return "", false
			}
			pOpen = false
			s.DidClose(pu)
		case "touchP":
			if !pOpen {
				return "", false
			}
			s.DidChangeFull(pu, c11P, 2)
		case "inlineP":
			// a request that fills the per-document template cache
			if !pOpen {
				return "", false
			}
			s.Call("textDocument/inlineCompletion", wire.DocPos(pu, strings.Count(c11P, "\n"), 0))
		case "openX":
			if editor >= 0 {
				return "", false
			}
			editor = disk
			s.DidOpen(xu, c11X(disk))
		case "openXother":
			// X opened with a text that is not the saved one (restored buffer, file
			// changed on disk behind the editor): the same state as open + change
			if editor >= 0 {
				return "", false
			}
			editor = 1 - disk
			s.DidOpen(xu, c11X(editor))
		case "closeX":
			if editor < 0 {
				return "", false
			}
			editor = -1
			s.DidClose(xu)
		case "changeX":
			if editor < 0 {
				return "", false
			}
			editor = 1 - editor
			s.DidChangeFull(xu, c11X(editor), 2)
		case "writeX":
			// X is not open: it is written by someone else and the server is told (didSave)
			if editor >= 0 {
				return "", false
			}
			disk = 1 - disk
			_ = os.WriteFile(xx, []byte(c11X(disk)), 0o644)
			s.DidSave(xu)
		case "saveX":
			if editor < 0 || editor == disk {
				return "", false
			}
			disk = editor
			_ = os.WriteFile(xx, []byte(c11X(disk)), 0o644)
			s.DidSave(xu)
		}
	}
	key = fmt.Sprintf("disk=%d editor=%d pOpen=%v\n%s\n%s", disk, editor, pOpen, s.Srv.VerifxDump(), s.Srv.VerifxCachesDump())
	key = strings.ReplaceAll(key, dir, "")
	// probes: first what P answers as it stands (no new analysis of P) ...
	asItStands := ""
	if pOpen {
		in := s.Call("textDocument/inlineCompletion", wire.DocPos(pu, strings.Count(c11P, "\n"), 0))
		h := s.Call("textDocument/hover", wire.DocPos(pu, 3, 6))
		asItStands = "inline=" + in.Result + ";hover=" + h.Result
	}
	// ... then P analysed once more
	if !pOpen {
		s.DidOpen(pu, c11P)
	} else {
		s.DidChangeFull(pu, c11P, 3)
	}
	got := c11SrvObserve(s, pu)
	// fresh server brought into the same final state
	f := newSession()
	if editor >= 0 {
		f.DidOpen(xu, c11X(disk))
		if editor != disk {
			f.DidChangeFull(xu, c11X(editor), 2)
		}
	}
	f.DidOpen(pu, c11P)
	want := c11SrvObserve(f, pu)
	if asItStands != "" {
		fin := f.Call("textDocument/inlineCompletion", wire.DocPos(pu, strings.Count(c11P, "\n"), 0))
		fh := f.Call("textDocument/hover", wire.DocPos(pu, 3, 6))
		if fresh := "inline=" + fin.Result + ";hover=" + fh.Result; fresh != asItStands {
			var kinds []string
			for _, o := range ops {
				kinds = append(kinds, o.Kind)
			}
			ws := "no workspace"
			if root {
				ws = "workspace root"
			}
			part := "inline completion"
			if strings.SplitN(fresh, ";hover=", 2)[0] == strings.SplitN(asItStands, ";hover=", 2)[0] {
				part = "hover"
			}
			c.Violate(fmt.Sprintf("server history|%s|%s without a new analysis|%s", ws, part, strings.Join(kinds, ">")), "load result independent of cache history (server)",
				fmt.Sprintf("%s, history %v (X on disk: version %d, X in the editor: %d), P open and not analysed again\nserver:       %s\nfresh server: %s", ws, kinds, disk, editor, firstN(asItStands, 900), firstN(fresh, 900)),
				c11SrvCase{"server", root, ops})
		}
	}
	c.Res.Evaluations++
	if len(ops) >= 3 {
		c.Res.Nontrivial++
	}
	if got != want {
		var kinds []string
		for _, o := range ops {
			kinds = append(kinds, o.Kind)
		}
		ws := "no workspace"
		if root {
			ws = "workspace root"
		}
		part := "diagnostics"
		if strings.SplitN(got, ";hover=", 2)[0] == strings.SplitN(want, ";hover=", 2)[0] {
			part = "hover"
			if strings.SplitN(got, ";inline=", 2)[0] == strings.SplitN(want, ";inline=", 2)[0] {
				part = "inline completion"
			}
		}
		c.Violate(fmt.Sprintf("server history|%s|%s|%s", ws, part, strings.Join(kinds, ">")), "load result independent of cache history (server)",
			fmt.Sprintf("%s, history %v, then P analysed again (X on disk: version %d, X in the editor: %d)\nserver:       %s\nfresh server: %s", ws, kinds, disk, editor, firstN(got, 900), firstN(want, 900)),
			c11SrvCase{"server", root, ops})
	}
	return key, true
}

func c11ServerHistories(c *core.Ctx, dir string) {
	depth := 5
	if c.Thorough() {
		depth = 7
	}
	ops := c11SrvOps()
	c.Bound("server histories", fmt.Sprintf("BFS depth %d over %d operations (open/close/re-analyse P, inline completion in P; open/close/change/save X) x workspace root on/off, P analysed again and compared with a fresh server in the same final state", depth, len(ops)))
	for ri, root := range []bool{false, true} {
		if !c.MineKey(int64(100 + ri)) {
			continue
		}
		root := root
		st := bfs.Search(len(ops), depth, 100000, "init", func(path []int) (string, bool) {
			seq := make([]c11SrvOp, len(path))
			for i, p := range path {
				seq[i] = ops[p]
			}
			return c11SrvRun(c, dir, root, seq)
		}, c.Expired)
		c.Res.States += st.States
		c.Res.Transitions += st.Transitions
		c.Res.Traces += st.Transitions
	}
}
