package props

import (
	"fmt"
	"os"
	"path/filepath"
	"sort"
	"strings"

	"github.com/juev/hledger-lsp/internal/include"
	"github.com/juev/hledger-lsp/internal/verifx/bfs"
	"github.com/juev/hledger-lsp/internal/verifx/core"
	"github.com/juev/hledger-lsp/internal/workspace"
)

func init() { core.Register("C12", checkC12) }

var c12Names = []string{"main.journal", "a.journal", "b.journal", "c.journal", "d.journal"}

// include sets per file and variant (indexes into c12Names; entries >= nfiles are dropped)
var c12Includes = [][][]int{
	{{1}, {1, 2}, {2}, {1, 3}}, // main
	{{}, {2}, {3}, {0}},        // a  (variant 3: cycle back to main)
	{{}, {3}, {1}, {4}},        // b  (variant 2: cycle with a)
	{{}, {}, {1}, {4}},         // c
	{{}, {1}, {}, {2}},         // d
}

var c12Bodies = []string{
	"commodity $1,000.00\naccount assets:cash\n\n2001-01-01 shop  ; trip:rome\n    expenses:food  $5\n    assets:cash\n",
	"commodity $1.000,00\n\n2001-01-01 shop\n    expenses:food  $7\n    assets:bank\n\n2001-01-02 cafe  ; trip:paris, kind:x\n    expenses:coffee  2 EUR\n    assets:cash\n",
	"account expenses:food\n\n2001-01-03 cafe\n    expenses:coffee  3 EUR\n    assets:cash\n",
	"; nothing here\n",
	"commodity 1.000,00 EUR\n\n2001-01-01 shop  ; trip:rome\n    expenses:food  $5\n    assets:cash\n\n2001-01-01 shop  ; kind:y\n    expenses:food  $5\n    assets:cash\n",
}

// A second world ("fan"): the root has no directives of its own and gains or
// loses two includes at once; the first of them (in path order) includes a
// further file, the second includes nothing; the included files carry the
// declarations.
var c12FanIncludes = [][][]int{
	{{}, {1, 2}, {2, 1}}, // main: none / a and b at once
	{{3}, {}, {3}},       // a: includes c (variant 1: not)
	{{}, {}, {3}},        // b: nothing (variant 2: includes c as well)
	{{}, {}, {}},         // c
}

var c12FanBodies = [][]string{
	{"; root without directives\n", "; root without directives\n\n2001-01-01 shop\n    expenses:food  $5\n    assets:cash\n", "; still none\n"},
	{"account expenses:food\ncommodity 1.000,00 EUR\n\n2001-02-01 cafe\n    expenses:food  2 EUR\n    assets:cash\n", "account expenses:food\n", "commodity 1.000,00 EUR\n"},
	{"commodity $1,000.00\n\n2001-03-01 shop  ; trip:rome\n    expenses:fuel  $7\n    assets:cash\n", "; b plain\n", "account assets:cash\n"},
	{"account assets:bank\n\n2001-04-01 bank  ; kind:x\n    assets:bank  1 EUR\n    equity:x\n", "; c plain\n", "account assets:bank\n"},
}

// A third world ("graph root"): no main.journal, the root journal is found by
// the include graph (the file nobody includes that sorts first); at start-up it
// includes nothing, while x, outside its tree, includes y. Root discovery has
// then seen include edges between files that are not members.
var c12GraphNames = []string{"0root.journal", "x.journal", "y.journal", "z.journal"}

var c12GraphIncludes = [][][]int{
	{{}, {1}, {1, 3}}, // root: none / x / x and z
	{{2}, {}, {2}},    // x: includes y (variant 1: not)
	{{}, {}, {3}},     // y: variant 2 includes z
	{{}, {}, {}},      // z
}

var c12GraphBodies = [][]string{
	{"; root\n\n2001-01-01 shop\n    expenses:food  $5\n    assets:cash\n", "; root\n", "account assets:cash\n"},
	{"account expenses:x\n\n2001-02-01 cafe  ; trip:rome\n    expenses:x  2 EUR\n    assets:cash\n", "commodity 1.000,00 EUR\n", "; x plain\n"},
	{"account expenses:y\ncommodity $1,000.00\n\n2001-03-01 ypayee\n    expenses:y  $7\n    assets:bank\n", "account expenses:yy\n", "; y plain\n"},
	{"account expenses:z\n\n2001-04-01 zpayee  ; kind:z\n    expenses:z  1 EUR\n    equity:z\n", "; z plain\n", "commodity 1,000.00 CHF\n"},
}

func c12NameT(table, file int) string {
	if table == 2 {
		return c12GraphNames[file]
	}
	return c12Names[file]
}

func c12IncludesT(table, file, variant int) []int {
	if table == 2 {
		return c12GraphIncludes[file][variant]
	}
	if table == 1 {
		return c12FanIncludes[file][variant]
	}
	return c12Includes[file][variant]
}

func c12ContentT(table, nfiles, file, variant int) string {
	if table == 0 {
		return c12Content(nfiles, file, variant)
	}
	var b strings.Builder
	for _, t := range c12IncludesT(table, file, variant) {
		if t < nfiles {
			b.WriteString("include " + c12NameT(table, t) + "\n")
		}
	}
	b.WriteString("\n")
	if table == 2 {
		b.WriteString(c12GraphBodies[file][variant])
	} else {
		b.WriteString(c12FanBodies[file][variant])
	}
	return b.String()
}

func c12Content(nfiles, file, variant int) string {
	var b strings.Builder
	for _, t := range c12Includes[file][variant] {
		if t < nfiles {
			b.WriteString("include " + c12Names[t] + "\n")
		}
	}
	b.WriteString("\n")
	b.WriteString(c12Bodies[(file+variant)%len(c12Bodies)])
	return b.String()
}

type c12Op struct {
	File    int `json:"file"`
	Variant int `json:"variant"`
}

type c12Case struct {
	NFiles   int     `json:"nfiles"`
	NVariant int     `json:"nvariants"`
	Ops      []c12Op `json:"ops"`
	// ReadEachStep: the cached getters were called after every update
	ReadEachStep bool `json:"getters_read_after_every_update,omitempty"`
	// Table: 0 = the general include table, 1 = the "fan" world, 2 = the "graph root" world
	Table int `json:"world_table,omitempty"`
	// Absent: this file (index > 0) does not exist when the workspace is
	// initialised, although a member names it; its first update creates it
	Absent int `json:"absent_at_start,omitempty"`
}

// canonical view of a workspace
type c12View struct {
	Members   []string
	Exact     map[string]string // facet -> canonical text, compared exactly
	Templates map[string]string // payee -> template
	Formats   map[string]string // commodity -> format
}

func c12ViewOf(dir string, w *workspace.Workspace) c12View {
	v := c12View{Exact: map[string]string{}, Templates: map[string]string{}, Formats: map[string]string{}}
	rel := func(p string) string {
		r, err := filepath.Rel(dir, p)
		if err != nil {
			return p
		}
		return r
	}
	res := w.GetResolved()
	mem := map[string]bool{}
	if res != nil {
		if res.Primary != nil {
			mem[rel(w.RootJournalPath())] = true
		}
		for p := range res.Files {
			mem[rel(p)] = true
		}
		fo := map[string]bool{}
		dup := false
		for _, p := range res.FileOrder {
			if fo[rel(p)] {
				dup = true
			}
			fo[rel(p)] = true
		}
		fk := map[string]bool{}
		for p := range res.Files {
			fk[rel(p)] = true
		}
		v.Exact["resolved.FileOrder is a duplicate-free listing of resolved.Files"] = fmt.Sprint(!dup && sameSet(fo, fk))
		// the order decides which of two conflicting templates / formats answers a
		// request and the order of completion lists
		var order []string
		for _, p := range res.FileOrder {
			order = append(order, rel(p))
		}
		v.Exact["order of the member files"] = fmt.Sprint(order)
	}
	v.Members = keys(mem)
	v.Exact["member files"] = fmt.Sprint(v.Members)
	s := w.IndexSnapshot()
	if s.Accounts != nil {
		v.Exact["accounts"] = fmt.Sprint(s.Accounts.All)
		v.Exact["accounts by prefix"] = canonMapSlice(s.Accounts.ByPrefix)
	}
	v.Exact["payees"] = fmt.Sprint(s.Payees)
	v.Exact["commodities"] = fmt.Sprint(s.Commodities)
	v.Exact["tags"] = fmt.Sprint(s.Tags)
	v.Exact["tag values"] = canonMapSlice(s.TagValues)
	v.Exact["dates"] = fmt.Sprint(s.Dates)
	v.Exact["account counts"] = canonIntMap(s.AccountCounts)
	v.Exact["payee counts"] = canonIntMap(s.PayeeCounts)
	v.Exact["commodity counts"] = canonIntMap(s.CommodityCounts)
	v.Exact["tag counts"] = canonIntMap(s.TagCounts)
	var tvc []string
	for k, m := range s.TagValueCounts {
		tvc = append(tvc, k+"={"+canonIntMap(m)+"}")
	}
	sort.Strings(tvc)
	v.Exact["tag value counts"] = strings.Join(tvc, " ")
	var txs []string
	for k, es := range s.Transactions {
		var one []string
		for _, e := range es {
			one = append(one, fmt.Sprintf("%s@%d:%d-%d:%d/%v/%s/%s", rel(e.FilePath), e.Range.Start.Line, e.Range.Start.Column, e.Range.End.Line, e.Range.End.Column, e.Date, e.Payee, e.Description))
		}
		sort.Strings(one)
		txs = append(txs, k+" => "+strings.Join(one, " & "))
	}
	sort.Strings(txs)
	v.Exact["transaction index"] = strings.Join(txs, "\n")
	for p, t := range s.PayeeTemplates {
		v.Templates[p] = fmt.Sprint(t)
	}
	v.Exact["declared accounts"] = fmt.Sprint(keys(w.GetDeclaredAccounts()))
	v.Exact["declared commodities"] = fmt.Sprint(keys(w.GetDeclaredCommodities()))
	for sym, f := range w.GetCommodityFormats() {
		v.Formats[sym] = fmt.Sprintf("%+v", f)
	}
	return v
}

func canonMapSlice(m map[string][]string) string {
	var out []string
	for k, v := range m {
		out = append(out, fmt.Sprintf("%s=%v", k, v))
	}
	sort.Strings(out)
	return strings.Join(out, " ")
}

func canonIntMap(m map[string]int) string {
	var out []string
	for k, v := range m {
		out = append(out, fmt.Sprintf("%s=%d", k, v))
	}
	sort.Strings(out)
	return strings.Join(out, " ")
}

func (v c12View) key() string {
	var b strings.Builder
	var ks []string
	for k := range v.Exact {
		ks = append(ks, k)
	}
	sort.Strings(ks)
	for _, k := range ks {
		b.WriteString(k + ":" + v.Exact[k] + "\n")
	}
	b.WriteString(canonStrMap(v.Templates) + "\n" + canonStrMap(v.Formats))
	return b.String()
}

func canonStrMap(m map[string]string) string {
	var out []string
	for k, v := range m {
		out = append(out, k+"="+v)
	}
	sort.Strings(out)
	return strings.Join(out, " ")
}

// c12Run replays ops on a live workspace and returns the live and the rebuilt view.
// c12Run replays the updates on one workspace. With readEachStep the cached
// getters are called after the initial load and after every update, as a server
// does that analyses a document after every change (caches are then filled
// under the superseded contents).
func c12Run(dir string, cs c12Case) (live, fresh c12View, liveW *workspace.Workspace, disk []int) {
	return c12RunMode(dir, cs, false)
}

func c12RunMode(dir string, cs c12Case, readEachStep bool) (live, fresh c12View, liveW *workspace.Workspace, disk []int) {
	disk = make([]int, cs.NFiles)
	for i := 0; i < cs.NFiles; i++ {
		if cs.Absent > 0 && i == cs.Absent {
			_ = os.Remove(filepath.Join(dir, c12NameT(cs.Table, i)))
			disk[i] = -1
			continue
		}
		_ = os.WriteFile(filepath.Join(dir, c12NameT(cs.Table, i)), []byte(c12ContentT(cs.Table, cs.NFiles, i, 0)), 0o644)
	}
	liveW = workspace.NewWorkspace(dir, include.NewLoader())
	_ = liveW.Initialize()
	read := func() {
		if readEachStep {
			liveW.GetDeclaredAccounts()
			liveW.GetDeclaredCommodities()
			liveW.GetCommodityFormats()
		}
	}
	read()
	for _, op := range cs.Ops {
		disk[op.File] = op.Variant
		content := c12ContentT(cs.Table, cs.NFiles, op.File, op.Variant)
		path := filepath.Join(dir, c12NameT(cs.Table, op.File))
		_ = os.WriteFile(path, []byte(content), 0o644)
		liveW.UpdateFile(path, content)
		read()
	}
	live = c12ViewOf(dir, liveW)
	fw := workspace.NewWorkspace(dir, include.NewLoader())
	_ = fw.Initialize()
	fresh = c12ViewOf(dir, fw)
	return
}

func c12Compare(c *core.Ctx, dir string, cs c12Case, live, fresh c12View, disk []int) bool {
	ok := true
	last := cs.Ops[len(cs.Ops)-1]
	// minimal cause for the signature: how the last update changed the file
	cause := "content edit"
	if len(cs.Ops) > 0 {
		prev := 0
		for _, o := range cs.Ops[:len(cs.Ops)-1] {
			if o.File == last.File {
				prev = o.Variant
			}
		}
		if fmt.Sprint(c12IncludesT(cs.Table, last.File, prev)) != fmt.Sprint(c12IncludesT(cs.Table, last.File, last.Variant)) {
			cause = "include list changed"
		}
	}
	viol := func(facet, class, detail string) {
		ok = false
		c.Violate(fmt.Sprintf("%s|%s|%s", facet, cause, class), "incremental view equals rebuild: "+facet,
			fmt.Sprintf("after %v (disk variants %v)\n%s", cs.Ops, disk, detail), cs)
	}
	var facets []string
	for k := range fresh.Exact {
		facets = append(facets, k)
	}
	for k := range live.Exact {
		if _, ok := fresh.Exact[k]; !ok {
			facets = append(facets, k)
		}
	}
	sort.Strings(facets)
	for _, k := range facets {
		if live.Exact[k] != fresh.Exact[k] {
			class := "differs"
			if len(live.Exact[k]) > len(fresh.Exact[k]) {
				class = "incremental has more"
			} else if len(live.Exact[k]) < len(fresh.Exact[k]) {
				class = "incremental has less"
			}
			viol(k, class, "incremental: "+live.Exact[k]+"\nrebuild:     "+fresh.Exact[k])
		}
	}
	// order-dependent facets: candidates from the member files
	cand := map[string]map[string]bool{}
	fcand := map[string]map[string]bool{}
	for _, m := range fresh.Members {
		b, err := os.ReadFile(filepath.Join(dir, m))
		if err != nil {
			continue
		}
		fi, j, _ := workspace.BuildFileIndexFromContent(filepath.Join(dir, m), string(b))
		for p, t := range fi.PayeeTemplates {
			if cand[p] == nil {
				cand[p] = map[string]bool{}
			}
			cand[p][fmt.Sprint(t)] = true
		}
		if j != nil {
			tmp := workspace.NewWorkspace(dir, include.NewLoader())
			_ = tmp
		}
	}
	for sym, f := range fresh.Formats {
		if fcand[sym] == nil {
			fcand[sym] = map[string]bool{}
		}
		fcand[sym][f] = true
	}
	// formats: candidates = formats obtainable from any single member file
	for _, m := range fresh.Members {
		one := c12SingleFileFormats(dir, m)
		for sym, f := range one {
			if fcand[sym] == nil {
				fcand[sym] = map[string]bool{}
			}
			fcand[sym][f] = true
		}
	}
	checkDep := func(facet string, liveM, freshM map[string]string, cands map[string]map[string]bool) {
		for k := range freshM {
			if _, ok := liveM[k]; !ok {
				viol(facet, "incremental lacks an entry the member files define", fmt.Sprintf("%s missing for %q; rebuild has %s", facet, k, freshM[k]))
			}
		}
		for k, lv := range liveM {
			if _, ok := freshM[k]; !ok {
				viol(facet, "incremental keeps an entry no member file defines", fmt.Sprintf("%s for %q = %s; rebuild has none", facet, k, lv))
				continue
			}
			if lv == freshM[k] {
				continue
			}
			if len(cands[k]) <= 1 {
				viol(facet, "differs although the member files agree", fmt.Sprintf("%s for %q: incremental %s rebuild %s", facet, k, lv, freshM[k]))
			} else if !cands[k][lv] {
				viol(facet, "value not obtainable from any member file", fmt.Sprintf("%s for %q: incremental %s candidates %v", facet, k, lv, keys(cands[k])))
			}
		}
	}
	checkDep("payee templates", live.Templates, fresh.Templates, cand)
	checkDep("commodity formats", live.Formats, fresh.Formats, fcand)
	return ok
}

func c12SingleFileFormats(dir, name string) map[string]string {
	// a workspace whose only file is a copy of this member (includes stripped)
	b, err := os.ReadFile(filepath.Join(dir, name))
	if err != nil {
		return nil
	}
	tmp := filepath.Join(dir, "_single")
	_ = os.MkdirAll(tmp, 0o755)
	var keep []string
	for _, l := range strings.Split(string(b), "\n") {
		if !strings.HasPrefix(l, "include ") {
			keep = append(keep, l)
		}
	}
	_ = os.WriteFile(filepath.Join(tmp, "main.journal"), []byte(strings.Join(keep, "\n")), 0o644)
	w := workspace.NewWorkspace(tmp, include.NewLoader())
	_ = w.Initialize()
	out := map[string]string{}
	for sym, f := range w.GetCommodityFormats() {
		out[sym] = fmt.Sprintf("%+v", f)
	}
	return out
}

func checkC12(c *core.Ctx) {
	if c.Replay != nil {
		var cs c12Case
		if err := jsonUnmarshal(c.Replay, &cs); err != nil {
			c.Res.InfraError = "bad replay: " + err.Error()
			return
		}
		dir := filepath.Join(c.Scratch, "c12r")
		_ = os.MkdirAll(dir, 0o755)
		live, fresh, _, disk := c12RunMode(dir, cs, cs.ReadEachStep)
		c12Compare(c, dir, cs, live, fresh, disk)
		return
	}
	type world struct{ nfiles, nvar, table, absent int }
	worlds := []world{{2, 3, 0, 0}, {3, 3, 0, 0}, {4, 3, 0, 0}, {4, 3, 1, 0}, {4, 3, 2, 0}, {3, 3, 0, 1}, {4, 3, 0, 2}}
	depth := 6
	if c.Thorough() {
		worlds = []world{{2, 4, 0, 0}, {3, 4, 0, 0}, {4, 4, 0, 0}, {5, 4, 0, 0}, {4, 3, 1, 0}, {4, 3, 2, 0}, {3, 4, 0, 1}, {4, 4, 0, 1}, {4, 4, 0, 2}}
		depth = 8
	}
	sampled := 0
	for wi, w := range worlds {
		dir := filepath.Join(c.Scratch, fmt.Sprintf("c12_%d", wi))
		_ = os.MkdirAll(dir, 0o755)
		var ops []c12Op
		for f := 0; f < w.nfiles; f++ {
			for v := 0; v < w.nvar; v++ {
				ops = append(ops, c12Op{f, v})
			}
		}
		// shard the first operation of every history over the workers
		st := bfs.Search(len(ops), depth, 200000, "init", func(path []int) (string, bool) {
			if c.NShards > 1 && path[0]%c.NShards != c.Shard {
				return "", false
			}
			cs := c12Case{NFiles: w.nfiles, NVariant: w.nvar, Table: w.table, Absent: w.absent}
			for _, p := range path {
				cs.Ops = append(cs.Ops, ops[p])
			}
			live, fresh, lw, disk := c12Run(dir, cs)
			c.Res.Evaluations++
			last := cs.Ops[len(cs.Ops)-1]
			prev := 0
			for _, o := range cs.Ops[:len(cs.Ops)-1] {
				if o.File == last.File {
					prev = o.Variant
				}
			}
			if fmt.Sprint(c12IncludesT(cs.Table, last.File, prev)) != fmt.Sprint(c12IncludesT(cs.Table, last.File, last.Variant)) {
				c.Res.Nontrivial++
			}
			good := c12Compare(c, dir, cs, live, fresh, disk)
			// the same history with the cached getters read after every update
			warm := cs
			warm.ReadEachStep = true
			wl, wf, _, wd := c12RunMode(dir, warm, true)
			c12Compare(c, dir, warm, wl, wf, wd)
			if good && sampled < 2 && len(cs.Ops) >= 3 {
				sampled++
				c.Sample(map[string]any{"files": w.nfiles, "updates": cs.Ops, "members": live.Members})
			}
			return fmt.Sprintf("%v\n%s\n%s", disk, live.key(), lw.VerifxGraphs()), true
		}, c.Expired)
		c.Res.States += st.States
		c.Res.Transitions += st.Transitions
		c.Res.Traces += st.Transitions
		c.Bound(fmt.Sprintf("world %d files x %d variants, include table %d, file absent at initialisation: %d (0 = none)", w.nfiles, w.nvar, w.table, w.absent), fmt.Sprintf("all update sequences up to depth %d, sharded by first update", depth))
		c.Count(fmt.Sprintf("states_%dfiles", w.nfiles), st.States)
		c.Count(fmt.Sprintf("transitions_%dfiles", w.nfiles), st.Transitions)
		if st.Exhausted {
			c.Count(fmt.Sprintf("shards_frontier_emptied_%dfiles", w.nfiles), 1)
		}
		if st.StateCapHit {
			c.Cap("state cap")
		}
		if c.Expired() {
			return
		}
	}
}
