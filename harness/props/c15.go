package props

import (
	"fmt"
	"os"
	"path/filepath"
	"regexp"
	"sort"
	"strings"

	"github.com/juev/hledger-lsp/internal/server"
	"github.com/juev/hledger-lsp/internal/verifx/core"
	"github.com/juev/hledger-lsp/internal/verifx/vorder"
	"github.com/juev/hledger-lsp/internal/verifx/wire"
)

func init() { core.Register("C15", checkC15) }

type c15Scenario struct {
	Name  string
	Files map[string]string
	Root  bool
	Open  []string
	Reqs  []wire.Msg
}

const (
	c15IncA = "commodity 1.000,00 EUR\naccount assets:bank\n\n2001-02-01 shop  ; trip:rome\n    expenses:food  5 EUR\n    assets:bank  -5 EUR\n\n2001-02-02 cafe  ; kind:x\n    expenses:coffee  2 USD\n    assets:cash\n"
	c15IncB = "commodity $1,000.00\naccount assets:cash\n\n2001-03-01 shop  ; trip:paris\n    expenses:fuel  7 EUR\n    assets:cash  -7 EUR\n\n2001-02-02 cafe  ; mood:y\n    expenses:tea  3 CHF\n    assets:bank\n"
)

func c15Scenarios() []c15Scenario {
	unbal := "2001-01-01 two commodities\n    a:x  1 EUR\n    a:y  2 USD\n    a:z  -1 CHF @ 1 GBP\n\n2001-01-02 three commodities\n    a:x  1 EUR\n    a:y  2 USD\n    a:z  3 CHF\n    a:w  4 JPY\n" +
		// names that are equal under case folding (a comparison that folds case ties them)
		"\n2001-01-03 case twins\n    a:x  1 EUR\n    a:y  2 eur\n    a:z  3 Eur\n    A:Z  4 EUr\n"
	main := "include a.journal\ninclude b.journal\n\n2001-01-01 market\n    expenses:veg  1 EUR\n    assets:wallet\n\n2001-01-05 shop\n    \n" +
		// names whose earliest use is in the included files (same date in both) and case twins of their names
		"\n2001-04-01 cafe  ; mood:z, Mood:x\n    Expenses:Food  1 eur\n    Assets:Bank\n" +
		// a tag whose values come from both included files, about to get a value
		"\n2001-04-02 x\n    ; trip:\n" +
		// an account prefix in a spelling that occurs nowhere (the case-insensitive fallback answers)
		"    ASSETS:\n"
	reqs := func(doc string, typingLine int) []wire.Msg {
		return []wire.Msg{
			{Op: "completion", Doc: doc, Line: typingLine, Char: 4},      // account, empty fragment
			{Op: "completion", Doc: doc, Line: typingLine - 1, Char: 11}, // payee, empty fragment
			{Op: "completion", Doc: doc, Line: typingLine - 1, Char: 12}, // payee, one letter
			{Op: "completion", Doc: doc, Line: typingLine + 7, Char: 11}, // tag value, empty fragment
			{Op: "completion", Doc: doc, Line: typingLine + 8, Char: 11}, // account prefix in a third spelling
			{Op: "completion", Doc: doc, Line: typingLine + 2, Char: 20}, // tag name inside a header comment
			{Op: "references", Doc: doc, Line: 4, Char: 8},
			{Op: "symbols", Doc: doc},
			{Op: "wsymbol", Text: ""},
			{Op: "wsymbol", Text: "a"},
			{Op: "hover", Doc: doc, Line: 4, Char: 8},
			{Op: "hover", Doc: doc, Line: 7, Char: 12},
			{Op: "inline", Doc: doc, Line: typingLine, Char: 0},
			{Op: "formatting", Doc: doc},
			{Op: "definition", Doc: doc, Line: 4, Char: 8},
			{Op: "folding", Doc: doc},
			{Op: "semfull", Doc: doc},
		}
	}
	files := map[string]string{"main.journal": main, "a.journal": c15IncA, "b.journal": c15IncB}
	// every word of a document: definition, references and hover
	sweep := func(doc, text string) []wire.Msg {
		var out []wire.Msg
		for ln, l := range strings.Split(text, "\n") {
			col := 0
			prevBlank := true
			for _, r := range l {
				blank := r == ' ' || r == '\t'
				if !blank && prevBlank {
					out = append(out, wire.Msg{Op: "definition", Doc: doc, Line: ln, Char: col}, wire.Msg{Op: "references", Doc: doc, Line: ln, Char: col}, wire.Msg{Op: "hover", Doc: doc, Line: ln, Char: col})
				}
				prevBlank = blank
				col++
				if r > 0xFFFF {
					col++
				}
			}
		}
		return out
	}
	return []c15Scenario{
		{Name: "S1-unbalanced-in-2-and-3-commodities", Files: map[string]string{"main.journal": unbal}, Open: []string{"main.journal"},
			Reqs: append([]wire.Msg{{Op: "symbols", Doc: "main.journal"}, {Op: "hover", Doc: "main.journal", Line: 1, Char: 5}, {Op: "formatting", Doc: "main.journal"}, {Op: "completion", Doc: "main.journal", Line: 1, Char: 4}}, sweep("main.journal", unbal)...)},
		{Name: "S2-root-and-two-included-files", Files: files, Open: []string{"main.journal"}, Reqs: append(reqs("main.journal", 8), sweep("main.journal", main)...)},
		{Name: "S3-workspace-root", Files: files, Root: true, Open: []string{"main.journal"}, Reqs: append(reqs("main.journal", 8), sweep("main.journal", main)...)},
		// two files become reachable at once through an edit of the root (the workspace adds them incrementally)
		{Name: "S5-includes-added-by-an-edit", Files: map[string]string{"main.journal": strings.Replace(main, "include a.journal\ninclude b.journal\n", "; no includes yet\n; none\n", 1), "a.journal": c15IncA, "b.journal": c15IncB},
			Root: true, Open: []string{"main.journal"},
			Reqs: append(append([]wire.Msg{{Op: "change", Doc: "main.journal", Text: main}}, reqs("main.journal", 8)...), sweep("main.journal", main)...)},
		// the two files with shared names are included one level down (by an included file)
		{Name: "S6-nested-includes", Files: map[string]string{"main.journal": strings.Replace(main, "include a.journal\ninclude b.journal\n", "include mid.journal\n; second line\n", 1), "mid.journal": "include a.journal\ninclude b.journal\n", "a.journal": c15IncA, "b.journal": c15IncB},
			Open: []string{"main.journal"}, Reqs: append(reqs("main.journal", 8), sweep("main.journal", main)...)},
		{Name: "S4-three-open-documents", Files: files, Root: true, Open: []string{"main.journal", "a.journal", "b.journal"},
			Reqs: append([]wire.Msg{{Op: "wsymbol", Text: ""}, {Op: "wsymbol", Text: "s"}, {Op: "completion", Doc: "a.journal", Line: 5, Char: 4}, {Op: "references", Doc: "b.journal", Line: 5, Char: 6}, {Op: "hover", Doc: "a.journal", Line: 4, Char: 8}}, sweep("a.journal", c15IncA)...)},
	}
}

var c15ResultID = regexp.MustCompile(`"resultId":"[^"]*",?`)

// c15Run executes the scenario under a map-order plan; observations are the
// published diagnostics of every open document and every response.
func c15Run(dir string, sc c15Scenario, plan map[int]int) ([]string, []vorder.ChoicePoint) {
	server.VerifxResetGlobals()
	vorder.Begin(plan)
	s := wire.New()
	root := ""
	if sc.Root {
		root = dir
	}
	s.Initialize(wire.InitOpts{Root: root})
	s.Initialized()
	var obs []string
	for _, f := range sc.Open {
		s.DidOpen(wire.URI(filepath.Join(dir, f)), sc.Files[f])
	}
	for _, f := range sc.Open {
		obs = append(obs, "diagnostics "+f+": "+s.Client.Last(wire.URI(filepath.Join(dir, f))))
	}
	for _, m := range sc.Reqs {
		r := s.Do(m, dir)
		obs = append(obs, m.String()+": "+c15ResultID.ReplaceAllString(r.Result, "")+"|"+r.Err+"|"+r.Panic)
	}
	points := vorder.End()
	return obs, points
}

type c15Case struct {
	Scenario string      `json:"scenario"`
	Plan     map[int]int `json:"plan"`
}

func checkC15(c *core.Ctx) {
	scs := c15Scenarios()
	prep := func(sc c15Scenario) string {
		dir := filepath.Join(c.Scratch, "c15_"+sc.Name)
		_ = os.MkdirAll(dir, 0o755)
		writeFiles(dir, sc.Files)
		return dir
	}
	compare := func(sc c15Scenario, base, got []string, plan map[int]int, points []vorder.ChoicePoint) {
		for i := range base {
			if i < len(got) && got[i] == base[i] {
				continue
			}
			what := strings.SplitN(base[i], ":", 2)[0]
			if j := strings.Index(what, "("); j > 0 {
				what = what[:j]
			}
			var sites []string
			for p := range plan {
				if p < len(points) {
					sites = append(sites, points[p].Site)
				}
			}
			sort.Strings(sites)
			o := ""
			if i < len(got) {
				o = got[i]
			}
			c.Violate(fmt.Sprintf("response depends on map iteration order|%s|range at %s", what, strings.Join(sites, " + ")), "responses are a function of workspace state",
				fmt.Sprintf("scenario %s, plan %v\nsorted-key order: %s\nthis order:       %s", sc.Name, plan, firstN(base[i], 900), firstN(o, 900)), c15Case{sc.Name, plan})
		}
	}
	if c.Replay != nil {
		var cs c15Case
		if err := jsonUnmarshal(c.Replay, &cs); err != nil {
			c.Res.InfraError = "bad replay: " + err.Error()
			return
		}
		for _, sc := range scs {
			if sc.Name == cs.Scenario {
				dir := prep(sc)
				base, _ := c15Run(dir, sc, nil)
				got, pts := c15Run(dir, sc, cs.Plan)
				compare(sc, base, got, cs.Plan, pts)
			}
		}
		return
	}
	for _, sc := range scs {
		dir := prep(sc)
		base, points := c15Run(dir, sc, nil)
		// the same request sequence on a second fresh server in this process, and the default order twice
		again, points2 := c15Run(dir, sc, nil)
		if strings.Join(base, "\n") != strings.Join(again, "\n") || len(points) != len(points2) {
			c.Violate("repeated identical run differs|"+sc.Name, "repeated identical requests return identical responses", "two fresh servers under the default order disagree", c15Case{sc.Name, nil})
			continue
		}
		multi := 0
		sites := map[string]bool{}
		for _, p := range points {
			if p.N >= 2 {
				multi++
				sites[p.Site] = true
			}
		}
		c.Bound(sc.Name, fmt.Sprintf("%d requests, %d map ranges executed, %d over >= 2 keys at %d distinct source sites", len(sc.Reqs), len(points), multi, len(sites)))
		c.Count("range sites with >= 2 keys", int64(len(sites)))
		sampled := 0
		// bound 1: every alternative order at every choice point
		for pi, p := range points {
			if p.N < 2 {
				continue
			}
			for alt := 1; alt < vorder.Alts(p.N); alt++ {
				if !c.Mine() {
					continue
				}
				plan := map[int]int{pi: alt}
				got, pts := c15Run(dir, sc, plan)
				c.Res.Evaluations++
				c.Res.Nontrivial++
				c.Res.States++
				c.Res.Transitions += int64(len(pts))
				c.Res.Traces++
				compare(sc, base, got, plan, points)
				if sampled < 1 {
					sampled++
					c.Sample(map[string]any{"scenario": sc.Name, "choice_point": pi, "site": p.Site, "keys": p.N, "alternative": alt, "permutation": vorder.Perm(p.N, alt)})
				}
			}
			if c.Expired() {
				return
			}
		}
		// bound 2 (thorough): pairs of choice points at different sites, reversal / first rotation only
		if c.Thorough() {
			var idx []int
			for pi, p := range points {
				if p.N >= 2 {
					idx = append(idx, pi)
				}
			}
			for a := 0; a < len(idx); a++ {
				for b := a + 1; b < len(idx); b++ {
					pa, pb := points[idx[a]], points[idx[b]]
					if pa.Site == pb.Site {
						continue
					}
					if !c.Mine() {
						continue
					}
					plan := map[int]int{idx[a]: vorder.Alts(pa.N) - 1, idx[b]: 1}
					got, pts := c15Run(dir, sc, plan)
					c.Res.Evaluations++
					c.Res.Nontrivial++
					c.Res.States++
					c.Res.Transitions += int64(len(pts))
					c.Res.Traces++
					compare(sc, base, got, plan, points)
				}
				if c.Expired() {
					return
				}
			}
		}
	}
}
