package props

import (
	"encoding/json"
	"fmt"
	"math/big"
	"os"
	"path/filepath"
	"regexp"
	"sort"
	"strings"

	"github.com/juev/hledger-lsp/internal/verifx/core"
	"github.com/juev/hledger-lsp/internal/verifx/gmodel"
	"github.com/juev/hledger-lsp/internal/verifx/wire"
)

func init() { core.Register("C20", checkC20) }

type c20Scenario struct {
	N        int   `json:"files"`
	Parent   []int `json:"parent"`
	Root     bool  `json:"workspace_root"`
	Values   []int `json:"value_rotation"` // per file: offset into the value alphabet
	EditFile int   `json:"unsaved_edit_in"`
	OpenAll  bool  `json:"all_open"`
	// Extra include directives (from, to) on top of the tree: a file reachable along two paths
	Extra [][2]int `json:"extra_includes,omitempty"`
	// Discard: the file with the unsaved edit was opened with its disk text,
	// changed, looked at once and closed again without saving before the sweep
	Discard bool `json:"edit_discarded,omitempty"`
	// ByEdit: the workspace starts from a root journal without its include
	// lines; they arrive with an edit of the open root journal
	ByEdit bool `json:"includes_added_by_edit,omitempty"`
	// TwoEdits: a second file gets an unsaved edit as well, and both edits arrive
	// by didChange after the hovered document was analysed
	TwoEdits bool `json:"two_files_edited_after_the_analysis,omitempty"`
}

// value alphabet: spelling, exact value, negative
var c20Values = []struct {
	Num gmodel.Number
	Neg bool
}{
	{gmodel.Num("12.50", "25/2"), false},
	{gmodel.Num("0.000000000001", "1/1000000000000"), false},
	{gmodel.Num("1,234.50", "2469/2"), false},
	{gmodel.Num("1.234,50", "2469/2"), true},
	{gmodel.Num("3", "3"), true},
	{gmodel.Num("1E3", "1000"), false},
	{gmodel.Num("1 234,50", "2469/2"), false},
	{gmodel.Num("0.5", "1/2"), true},
	{gmodel.Num("1000.5", "2001/2"), false},
	{gmodel.Num("1,00,000.00", "100000"), false},
	{gmodel.Num("0.125", "1/8"), true},
	{gmodel.Num("0,250", "1/4"), true},
	{gmodel.Num("1.5E2", "150"), false},
}

func c20Amount(i int, sym string) *gmodel.Amount {
	v := c20Values[i%len(c20Values)]
	a := &gmodel.Amount{Num: v.Num, Neg: v.Neg, Sym: sym}
	switch sym {
	case "$":
		a.Side = gmodel.SideLeft
	default:
		a.Side, a.Gap = gmodel.SideRight, 1
	}
	return a
}

// journal of file f; variant 1 (unsaved edit) adds one transaction
func (sc c20Scenario) journal(f, variant int) *gmodel.Journal {
	j := &gmodel.Journal{LineEnd: "\n", FinalNewline: true, Blank: 1}
	for k := 1; k < sc.N; k++ {
		if sc.Parent[k] == f {
			j.Entries = append(j.Entries, gmodel.Entry{Kind: gmodel.EntryInclude, Path: c09Files[k]})
		}
	}
	for _, e := range sc.Extra {
		if e[0] == f {
			j.Entries = append(j.Entries, gmodel.Entry{Kind: gmodel.EntryInclude, Path: c09Files[e[1]]})
		}
	}
	r := sc.Values[f]
	day := 1
	tx := func(payeeKind int, payee, note string, comment *gmodel.Comment, ps []gmodel.Posting) {
		t := &gmodel.Tx{Date: gmodel.Date{Y: 2001, M: f + 1, D: day, Sep: "-", Pad: true}, Gap: 1, HeaderKind: payeeKind, Desc: payee, Payee: payee, Note: note, PipeBefore: 1, PipeAfter: 1, Comment: comment, Postings: ps}
		day++
		j.Entries = append(j.Entries, gmodel.Entry{Kind: gmodel.EntryTx, Tx: t})
	}
	tx(gmodel.HeaderDesc, "shop", "", &gmodel.Comment{Text: " trip:rome", Tags: []gmodel.Tag{{Name: "trip", Value: "rome"}}}, []gmodel.Posting{
		{Indent: "    ", Account: "assets:bank", Sep: "  ", Amount: c20Amount(r, "$")},
		{Indent: "    ", Account: "expenses:food"},
	})
	tx(gmodel.HeaderPayeeNote, "cafe", "weekly", nil, []gmodel.Posting{
		{Indent: "    ", Account: "assets:bank", Sep: "  ", Amount: c20Amount(r+1, "EUR")},
		{Indent: "    ", Account: "expenses:food", Sep: "  ", Amount: c20Amount(r+2, "EUR"), Comment: &gmodel.Comment{Text: " trip:paris, kind:x", Tags: []gmodel.Tag{{Name: "trip", Value: "paris"}, {Name: "kind", Value: "x"}}}},
		{Indent: "    ", Account: "assets:cash", Sep: "  ", Amount: c20Amount(r+3, "$"),
			Cost: &gmodel.Cost{Total: f%2 == 1, Before: 1, After: 1, Amount: *c20Amount(r+4, "EUR")}},
	})
	extra := 0
	if f%2 == 1 {
		extra++
	}
	if variant == 1 {
		// the unsaved edit adds a transaction in every file (odd files have one more already)
		extra++
	}
	for ; extra > 0; extra-- {
		tx(gmodel.HeaderDesc, "shop", "", nil, []gmodel.Posting{
			{Indent: "    ", Account: "assets:bank", Sep: "  ", Amount: c20Amount(r+5+extra, "$")},
			{Indent: "    ", Account: "assets:cash", Sep: "  ", Amount: c20Amount(r+6+extra, "$"), Comment: &gmodel.Comment{Text: " trip:rome", Tags: []gmodel.Tag{{Name: "trip", Value: "rome"}}}},
		})
	}
	return j
}

// aggregates over a set of journals
type c20Agg struct {
	Bal      map[string]map[string]*big.Rat // account -> commodity -> sum of explicit amounts
	Postings map[string]int
	Payees   map[string]int
	Tags     map[string]int
	TagVals  map[string]int // name=value
}

func c20Aggregate(js []*gmodel.Journal) c20Agg {
	a := c20Agg{Bal: map[string]map[string]*big.Rat{}, Postings: map[string]int{}, Payees: map[string]int{}, Tags: map[string]int{}, TagVals: map[string]int{}}
	tag := func(c *gmodel.Comment) {
		if c == nil {
			return
		}
		for _, t := range c.Tags {
			a.Tags[t.Name]++
			a.TagVals[t.Name+"="+t.Value]++
		}
	}
	for _, j := range js {
		for _, e := range j.Entries {
			if e.Kind != gmodel.EntryTx {
				continue
			}
			t := e.Tx
			// a transaction counts for a name when its payee or its description equals it
			desc := t.Desc
			names := map[string]bool{}
			if t.HeaderKind == gmodel.HeaderPayeeNote {
				names[t.Payee] = true
				names[t.Payee+" | "+t.Note] = true
			} else {
				names[desc] = true
			}
			for n := range names {
				a.Payees[n]++
			}
			tag(t.Comment)
			for i := range t.Lines {
				tag(&t.Lines[i])
			}
			for _, p := range t.Postings {
				a.Postings[p.Account]++
				tag(p.Comment)
				if p.Amount == nil {
					continue
				}
				if a.Bal[p.Account] == nil {
					a.Bal[p.Account] = map[string]*big.Rat{}
				}
				if a.Bal[p.Account][p.Amount.Sym] == nil {
					a.Bal[p.Account][p.Amount.Sym] = new(big.Rat)
				}
				a.Bal[p.Account][p.Amount.Sym].Add(a.Bal[p.Account][p.Amount.Sym], p.Amount.Value())
			}
		}
	}
	return a
}

var (
	reAccount  = regexp.MustCompile("^\\*\\*Account:\\*\\* `([^`]*)`")
	reBalLine  = regexp.MustCompile(`(?m)^- (\S+) (.*)$`)
	rePostings = regexp.MustCompile(`\*\*Postings:\*\* (\d+)`)
	rePayee    = regexp.MustCompile(`^\*\*Payee:\*\* (.*)`)
	reTx       = regexp.MustCompile(`\*\*Transactions:\*\* (\d+)`)
	reTag      = regexp.MustCompile("^\\*\\*Tag:\\*\\* `([^`]*)`")
	reValue    = regexp.MustCompile("\\*\\*Value:\\*\\* `([^`]*)`")
	reUsage    = regexp.MustCompile(`\*\*Usage:\*\* (\d+)`)
	reAmount   = regexp.MustCompile(`^\*\*Amount:\*\* (\S+) ?(.*)`)
	reCost     = regexp.MustCompile(`\*\*(Unit|Total) cost:\*\* @@? (\S+) ?(.*)`)
)

type c20Case struct {
	Scenario c20Scenario `json:"scenario"`
	From     int         `json:"from_file"`
	Line     int         `json:"line"`
	Char     int         `json:"character"`
}

func (sc c20Scenario) features(from int) string {
	f := "no workspace"
	if sc.Root {
		f = "workspace root"
	}
	if from == 0 {
		f += ", hover in the root file"
	} else {
		f += ", hover in an included file"
	}
	if sc.EditFile >= 0 {
		if sc.EditFile == from {
			f += ", unsaved edit in the hovered file"
		} else {
			f += ", unsaved edit in another open file"
		}
		if sc.Discard {
			f += " (closed again without saving)"
		}
		if sc.TwoEdits {
			f += ", a second file edited too, both after the hovered document was analysed"
		}
	}
	if len(sc.Extra) > 0 {
		f += ", a file included along two paths"
	}
	if sc.ByEdit {
		f += ", the root's include lines arrived with an edit"
	}
	return f
}

func c20Run(c *core.Ctx, dir string, sc c20Scenario, only *c20Case) {
	_ = os.RemoveAll(dir)
	_ = os.MkdirAll(dir, 0o755)
	disk := make([]*gmodel.Journal, sc.N)
	cur := make([]*gmodel.Journal, sc.N)
	open := make([]bool, sc.N)
	for f := 0; f < sc.N; f++ {
		disk[f] = sc.journal(f, 0)
		cur[f] = disk[f]
		if sc.EditFile == f {
			cur[f] = sc.journal(f, 1)
			open[f] = true
		}
		if sc.OpenAll {
			open[f] = true
		}
		_ = os.WriteFile(filepath.Join(dir, c09Files[f]), []byte(disk[f].Render().Text), 0o644)
	}
	uriOf := func(f int) string { return wire.URI(filepath.Join(dir, c09Files[f])) }
	below := func(req, x int) bool {
		// x is reachable from req through include directives (tree and extra edges)
		seen := map[int]bool{req: true}
		queue := []int{req}
		for len(queue) > 0 {
			y := queue[0]
			queue = queue[1:]
			for k := 1; k < sc.N; k++ {
				if sc.Parent[k] == y && !seen[k] {
					seen[k] = true
					queue = append(queue, k)
				}
			}
			for _, e := range sc.Extra {
				if e[0] == y && !seen[e[1]] {
					seen[e[1]] = true
					queue = append(queue, e[1])
				}
			}
		}
		return x != req && seen[x]
	}
	for from := 0; from < sc.N; from++ {
		if only != nil && only.From != from {
			continue
		}
		byEdit := sc.ByEdit && sc.Root && sc.EditFile != 0
		mainPath := filepath.Join(dir, c09Files[0])
		mainText := cur[0].Render().Text
		stripped := strings.ReplaceAll(mainText, "include ", "; nclude ")
		if byEdit {
			_ = os.WriteFile(mainPath, []byte(stripped), 0o644)
		}
		s := wire.New()
		root := ""
		if sc.Root {
			root = dir
		}
		s.Initialize(wire.InitOpts{Root: root})
		s.Initialized()
		mainOpened := false
		if byEdit {
			s.DidOpen(uriOf(0), stripped)
			s.DidChangeFull(uriOf(0), mainText, 2)
			_ = os.WriteFile(mainPath, []byte(disk[0].Render().Text), 0o644)
			mainOpened = true
		}
		wasOpen := open[from]
		open[from] = true
		kept := false
		if sc.Discard && sc.EditFile >= 0 && sc.EditFile != from {
			// history: the edited file is opened with its disk text, changed, looked at from the hovered file, and closed unsaved
			ef := sc.EditFile
			s.DidOpen(uriOf(from), cur[from].Render().Text)
			s.DidOpen(uriOf(ef), disk[ef].Render().Text)
			s.DidChangeFull(uriOf(ef), cur[ef].Render().Text, 2)
			s.Call("textDocument/hover", wire.DocPos(uriOf(from), 0, 0))
			for _, sp := range cur[from].Render().Spans {
				if sp.Kind == "account" {
					s.Call("textDocument/hover", wire.DocPos(uriOf(from), sp.Line, sp.U0))
					break
				}
			}
			s.DidClose(uriOf(ef))
			cur[ef] = disk[ef]
			open[ef] = false
			kept = true // the hovered document stays open: it is not analysed again
		}
		second := -1
		var secondCur *gmodel.Journal
		if sc.TwoEdits {
			for g := 1; g < sc.N; g++ {
				if g != sc.EditFile && g != from && second < 0 {
					second = g
				}
			}
			if second < 0 || sc.EditFile < 1 || sc.EditFile == from {
				open[from] = wasOpen
				continue
			}
			ef := sc.EditFile
			secondCur, cur[second] = cur[second], sc.journal(second, 1)
			s.DidOpen(uriOf(from), cur[from].Render().Text)
			s.DidOpen(uriOf(ef), disk[ef].Render().Text)
			s.DidOpen(uriOf(second), disk[second].Render().Text)
			// the hovered document is asked once before the edits arrive: whatever a
			// hover keeps for later use is then built from the superseded texts
			s.Call("textDocument/hover", wire.DocPos(uriOf(from), 0, 0))
			for _, sp := range cur[from].Render().Spans {
				if sp.Kind == "account" || sp.Kind == "payee" || sp.Kind == "tagname" {
					s.Call("textDocument/hover", wire.DocPos(uriOf(from), sp.Line, sp.U0))
				}
			}
			s.DidChangeFull(uriOf(ef), cur[ef].Render().Text, 2)
			s.DidChangeFull(uriOf(second), cur[second].Render().Text, 2)
			kept = true
			c.Count("hovers after two unsaved edits that arrived after the analysis", 1)
		}
		for f := 0; f < sc.N; f++ {
			if open[f] && !(kept && f == from) && !(mainOpened && f == 0) && !(second >= 0 && f == sc.EditFile) {
				s.DidOpen(uriOf(f), cur[f].Render().Text)
			}
		}
		var scope []*gmodel.Journal
		nscope := 0
		for f := 0; f < sc.N; f++ {
			if sc.Root || f == from || below(from, f) {
				scope = append(scope, cur[f])
				nscope++
			}
		}
		agg := c20Aggregate(scope)
		rd := cur[from].Render()
		for _, sp := range rd.Spans {
			var positions []int
			switch sp.Kind {
			case "account", "description", "payee", "tagname", "tagvalue", "amount":
				if sp.Role == "cost" || sp.Role == "assertion" || sp.Role == "directive" {
					continue
				}
				positions = []int{sp.U0, (sp.U0 + sp.U1) / 2}
				if sp.U1-1 > sp.U0 {
					positions = append(positions, sp.U1-1)
				}
			default:
				continue
			}
			for _, ch := range positions {
				if only != nil && (only.Line != sp.Line || only.Char != ch) {
					continue
				}
				r := s.Call("textDocument/hover", wire.DocPos(uriOf(from), sp.Line, ch))
				c.Res.Evaluations++
				if nscope >= 2 {
					c.Res.Nontrivial++
				}
				var h struct {
					Contents struct{ Value string }
				}
				_ = json.Unmarshal([]byte(r.Result), &h)
				md := h.Contents.Value
				cas := c20Case{sc, from, sp.Line, ch}
				viol := func(clause, class, detail string) {
					c.Violate(fmt.Sprintf("%s|%s|%s", clause, class, sc.features(from)), clause,
						fmt.Sprintf("hover in %s at %d:%d on %s %q\n%s\n--- hover:\n%s", c09Files[from], sp.Line, ch, sp.Kind, sp.Text, detail, md), cas)
				}
				if md == "" {
					continue // whether a hover must exist is not part of the property
				}
				switch sp.Kind {
				case "account":
					m := reAccount.FindStringSubmatch(md)
					if m == nil {
						viol("account hover shows the account", "other hover kind", "")
						continue
					}
					if m[1] != sp.Name {
						viol("account hover shows the account", "wrong account", "")
						continue
					}
					got := map[string]*big.Rat{}
					bad := false
					for _, bl := range reBalLine.FindAllStringSubmatch(md, -1) {
						v, ok := new(big.Rat).SetString(bl[1])
						if !ok {
							bad = true
							continue
						}
						got[bl[2]] = v
					}
					want := agg.Bal[sp.Name]
					same := !bad && len(got) == len(want)
					for k, v := range want {
						if g, ok := got[k]; !ok || g.Cmp(v) != 0 {
							same = false
						}
					}
					if !same {
						viol("account balance is the exact sum of explicit amounts per commodity", c20BalClass(got, want, scope, sp.Name), fmt.Sprintf("expected %v got %v", ratMap(want), ratMap(got)))
					}
					pm := rePostings.FindStringSubmatch(md)
					if pm == nil || pm[1] != fmt.Sprint(agg.Postings[sp.Name]) {
						viol("posting count is exact", c20CountClass(pm, agg.Postings[sp.Name]), fmt.Sprintf("expected %d", agg.Postings[sp.Name]))
					}
				case "description", "payee":
					m := rePayee.FindStringSubmatch(md)
					if m == nil {
						continue
					}
					name := strings.TrimSpace(m[1])
					tm := reTx.FindStringSubmatch(md)
					if tm == nil || tm[1] != fmt.Sprint(agg.Payees[name]) {
						viol("payee hover shows the exact number of matching transactions", c20CountClass(tm, agg.Payees[name]), fmt.Sprintf("payee %q expected %d", name, agg.Payees[name]))
					}
				case "tagname":
					m := reTag.FindStringSubmatch(md)
					if m == nil || reValue.MatchString(md) {
						continue
					}
					um := reUsage.FindStringSubmatch(md)
					if um == nil || um[1] != fmt.Sprint(agg.Tags[m[1]]) {
						viol("tag hover shows the exact number of uses", c20CountClass(um, agg.Tags[m[1]]), fmt.Sprintf("tag %q expected %d", m[1], agg.Tags[m[1]]))
					}
				case "tagvalue":
					m := reTag.FindStringSubmatch(md)
					vm := reValue.FindStringSubmatch(md)
					if m == nil || vm == nil {
						continue
					}
					um := reUsage.FindStringSubmatch(md)
					want := agg.TagVals[m[1]+"="+vm[1]]
					if um == nil || um[1] != fmt.Sprint(want) {
						viol("tag value hover shows the exact number of uses", c20CountClass(um, want), fmt.Sprintf("tag %s=%s expected %d", m[1], vm[1], want))
					}
				case "amount":
					m := reAmount.FindStringSubmatch(md)
					if m == nil {
						continue
					}
					// find the model posting
					p := cur[from].Entries[sp.Entry].Tx.Postings[sp.Post]
					v, ok := new(big.Rat).SetString(m[1])
					if !ok || v.Cmp(p.Amount.Value()) != 0 || strings.TrimSpace(m[2]) != p.Amount.Sym {
						viol("amount hover shows the exact value", "wrong amount", fmt.Sprintf("expected %s %s", p.Amount.Value().RatString(), p.Amount.Sym))
					}
					cm := reCost.FindStringSubmatch(md)
					switch {
					case p.Cost == nil && cm != nil:
						viol("amount hover shows the exact cost", "spurious cost", "")
					case p.Cost != nil && cm == nil:
						viol("amount hover shows the exact cost", "cost missing", "")
					case p.Cost != nil:
						cv, ok := new(big.Rat).SetString(cm[2])
						kind := "Unit"
						if p.Cost.Total {
							kind = "Total"
						}
						if !ok || cv.Cmp(p.Cost.Amount.Value()) != 0 || cm[1] != kind || strings.TrimSpace(cm[3]) != p.Cost.Amount.Sym {
							viol("amount hover shows the exact cost", "wrong cost", fmt.Sprintf("expected %s cost %s %s", kind, p.Cost.Amount.Value().RatString(), p.Cost.Amount.Sym))
						}
					}
				}
			}
		}
		open[from] = wasOpen
		if second >= 0 {
			cur[second] = secondCur
		}
	}
}

func ratMap(m map[string]*big.Rat) string {
	var ks []string
	for k, v := range m {
		ks = append(ks, k+"="+v.RatString())
	}
	sort.Strings(ks)
	return strings.Join(ks, " ")
}

func c20CountClass(m []string, want int) string {
	if m == nil {
		return "count missing"
	}
	var got int
	fmt.Sscan(m[1], &got)
	switch {
	case got > want:
		return "counts more than exist"
	case got < want:
		return "counts fewer than exist"
	}
	return "wrong count"
}

// c20BalClass names how the balance differs: relation to sums over other scopes.
func c20BalClass(got, want map[string]*big.Rat, scope []*gmodel.Journal, account string) string {
	if len(got) != len(want) {
		return "commodities differ"
	}
	for k, w := range want {
		g, ok := got[k]
		if !ok {
			return "commodities differ"
		}
		if g.Cmp(w) == 0 {
			continue
		}
		diff := new(big.Rat).Sub(g, w)
		// is the difference the contribution of whole files (missing or doubled)?
		for _, j := range scope {
			one := c20Aggregate([]*gmodel.Journal{j}).Bal[account][k]
			if one == nil || one.Sign() == 0 {
				continue
			}
			if new(big.Rat).Neg(one).Cmp(diff) == 0 {
				return "a file's postings are missing from the sum"
			}
			if one.Cmp(diff) == 0 {
				return "a file's postings are counted twice"
			}
		}
		return "sum is not exact"
	}
	return "sum is not exact"
}

func checkC20(c *core.Ctx) {
	dir := filepath.Join(c.Scratch, "c20")
	if c.Replay != nil {
		var cs c20Case
		if err := jsonUnmarshal(c.Replay, &cs); err != nil {
			c.Res.InfraError = "bad replay: " + err.Error()
			return
		}
		c20Run(c, dir, cs.Scenario, &cs)
		return
	}
	maxN := 3
	if c.Thorough() {
		maxN = 4
	}
	c.Bound("workspaces", fmt.Sprintf("1..%d files, every include tree; three accounts, two commodities, payee with and without note, tags and tag values repeated across files; %d value spellings incl. 12 decimals, grouped, exponent; rotation of values per file; 3 graphs in which a file is included along two paths; unsaved edits also discarded (file closed again) before the sweep", maxN, len(c20Values)))
	sampled := 0
	for n := 1; n <= maxN; n++ {
		for _, tree := range c09Trees(n) {
			rotations := len(c20Values)
			if n == 4 {
				rotations = 3
			}
			for rot := 0; rot < rotations; rot++ {
				vals := make([]int, n)
				for f := range vals {
					vals[f] = rot + 3*f
				}
				for _, root := range []bool{false, true} {
					for ef := -1; ef < n; ef++ {
						for _, openAll := range []bool{false, true} {
							if openAll && (ef >= 0 || n == 1) {
								continue
							}
							if !c.Mine() {
								continue
							}
							sc := c20Scenario{N: n, Parent: tree, Root: root, Values: vals, EditFile: ef, OpenAll: openAll}
							c20Run(c, dir, sc, nil)
							if root && n >= 2 && ef != 0 && rot < 2 {
								bsc := sc
								bsc.ByEdit = true
								c20Run(c, dir, bsc, nil)
							}
							if ef >= 0 && n >= 2 && rot < 2 {
								dsc := sc
								dsc.Discard = true
								c20Run(c, dir, dsc, nil)
							}
							if ef >= 1 && n >= 3 && rot < 2 {
								tsc := sc
								tsc.TwoEdits = true
								c20Run(c, dir, tsc, nil)
							}
							if sampled < 2 && n == 3 && ef == 1 {
								sampled++
								c.Sample(map[string]any{"scenario": sc, "b.journal": sc.journal(1, 1).Render().Text})
							}
						}
					}
				}
			}
			if c.Expired() {
				return
			}
		}
	}
	// a file reachable along two include paths is counted once
	diamonds := []c20Scenario{
		{N: 3, Parent: []int{-1, 0, 1}, Extra: [][2]int{{0, 2}}},
		{N: 4, Parent: []int{-1, 0, 0, 1}, Extra: [][2]int{{2, 3}}},
		{N: 4, Parent: []int{-1, 0, 1, 2}, Extra: [][2]int{{0, 3}, {1, 3}}},
	}
	for _, d := range diamonds {
		for rot := 0; rot < 3; rot++ {
			for _, root := range []bool{false, true} {
				for ef := -1; ef < d.N; ef++ {
					if !c.Mine() {
						continue
					}
					sc := d
					sc.Root, sc.EditFile = root, ef
					sc.Values = make([]int, d.N)
					for f := range sc.Values {
						sc.Values[f] = rot + 3*f
					}
					c20Run(c, dir, sc, nil)
				}
			}
		}
	}
}
