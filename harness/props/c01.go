package props

import (
	"fmt"
	"os"
	"regexp"
	"sort"
	"strings"

	"go.lsp.dev/protocol"

	"github.com/juev/hledger-lsp/internal/server"
	"github.com/juev/hledger-lsp/internal/verifx/bfs"
	"github.com/juev/hledger-lsp/internal/verifx/core"
	"github.com/juev/hledger-lsp/internal/verifx/refbuf"
	"github.com/juev/hledger-lsp/internal/verifx/wire"
)

func init() { core.Register("C01", checkC01) }

var c01Units = []string{"a", "é", "😀", "\n", "\r\n"}
var c01Texts = []string{"", "x", "é", "😀", "\n", "\r\n", "x\ny"}

const c01URI = "file:///c01/doc.journal"
const c01URI2 = "file:///c01/other.journal"

type c01Case struct {
	Part    string          `json:"part"` // mirror | history
	Doc     string          `json:"doc,omitempty"`
	Changes []refbuf.Change `json:"changes,omitempty"`
	Ops     []c01Op         `json:"ops,omitempty"`
	// Version: version number of the change notification; EarlierSession: the same
	// URI had a session before in which a change carried version 9
	Version        int  `json:"version,omitempty"`
	EarlierSession bool `json:"earlier_session_of_the_uri,omitempty"`
}

func c01Docs(maxUnits int) []string {
	docs := []string{""}
	level := []string{""}
	for n := 1; n <= maxUnits; n++ {
		var next []string
		for _, d := range level {
			for _, u := range c01Units {
				// "\r" + "\n" across units cannot arise: units are atomic and "\r" never stands alone
				next = append(next, d+u)
			}
		}
		docs = append(docs, next...)
		level = next
	}
	return docs
}

// all positions line 0..lines+1 x char 0..maxLineLen+2, not inside a surrogate pair
func c01Positions(b *refbuf.Buffer) []refbuf.Pos {
	maxLen := 0
	for l := 0; l < b.LineCount(); l++ {
		if n := b.LineLen(l); n > maxLen {
			maxLen = n
		}
	}
	var out []refbuf.Pos
	for l := 0; l <= b.LineCount()+1; l++ {
		for ch := 0; ch <= maxLen+2; ch++ {
			p := refbuf.Pos{Line: l, Char: ch}
			if b.InsideSurrogatePair(p) {
				continue
			}
			out = append(out, p)
		}
	}
	return out
}

func c01ChangeNotification(uri string, version int, changes []refbuf.Change) string {
	var cs []string
	for _, c := range changes {
		cs = append(cs, c.JSON())
	}
	return fmt.Sprintf(`{"textDocument":{"uri":%s,"version":%d},"contentChanges":[%s]}`, wire.Q(uri), version, strings.Join(cs, ","))
}

// cause tags of a ranged change on a document, in model terms
func c01Cause(b *refbuf.Buffer, c refbuf.Change) string {
	if !c.Ranged {
		return "range-less change"
	}
	if c.Range.Start == (refbuf.Pos{}) && c.Range.End == (refbuf.Pos{}) {
		return "empty range at 0:0"
	}
	var tags []string
	add := func(t string) {
		for _, x := range tags {
			if x == t {
				return
			}
		}
		tags = append(tags, t)
	}
	for _, p := range []refbuf.Pos{c.Range.Start, c.Range.End} {
		if p.Line >= b.LineCount() {
			add("line past the document end")
			continue
		}
		lineText := b.LineText(p.Line)
		off := b.Offset(refbuf.Pos{Line: p.Line, Char: 0}) + b.LineLen(p.Line)
		crlf := off < len(b.U) && b.U[off] == '\r'
		if p.Char > b.LineLen(p.Line) {
			if crlf {
				add("character past the end of a CRLF line")
			} else {
				add("character past the end of a line")
			}
		}
		for _, r := range lineText {
			if r >= 0x10000 {
				add("line with a non-BMP character")
			} else if r >= 0x80 {
				add("line with a non-ASCII character")
			}
		}
	}
	if c.Range.End.Less(c.Range.Start) {
		add("start after end")
	}
	sort.Strings(tags)
	if len(tags) == 0 {
		return "plain in-range change"
	}
	// principal cause first: the clamp on a CRLF line subsumes the other tags
	for _, t := range tags {
		if t == "character past the end of a CRLF line" {
			return t
		}
	}
	return strings.Join(tags, " + ")
}

var c01Sessions int

func c01Mirror(c *core.Ctx, s *wire.Session, doc string, changes []refbuf.Change) {
	ref := refbuf.New(doc)
	asFull := refbuf.New(doc) // what results if empty ranges at 0:0 are taken for range-less changes
	cause := ""
	for _, ch := range changes {
		k := c01Cause(ref, ch)
		if cause == "" || (k != "plain in-range change" && cause != "empty range at 0:0") {
			cause = k
		}
		ref.Apply(ch)
		if k == "empty range at 0:0" {
			asFull.Apply(refbuf.Change{Text: ch.Text})
		} else {
			asFull.Apply(ch)
		}
	}
	s.DidOpen(c01URI, doc)
	// every case is a new session of the same URI on the same server; version
	// numbers restart with each session (9 in one, 2 in the next: a lower number
	// than the server saw before for this URI is normal after a re-open)
	c01Sessions++
	version := 2
	if c01Sessions%2 == 1 {
		version = 9
	}
	r := s.Notify("textDocument/didChange", c01ChangeNotification(c01URI, version, changes))
	got, ok := s.Srv.GetDocument(protocol.DocumentURI(c01URI))
	s.DidClose(c01URI)
	c.Res.Evaluations++
	if cause != "plain in-range change" {
		c.Res.Nontrivial++
	}
	cas := c01Case{Part: "mirror", Doc: doc, Changes: changes, Version: version, EarlierSession: c01Sessions > 1}
	if !r.OK() {
		c.Violate("mirror|"+cause+"|notification failed", "didChange is accepted", r.Err+r.Panic, cas)
		return
	}
	want := ref.String()
	if !ok || got != want {
		class := "text differs"
		switch {
		case cause == "empty range at 0:0" && got == asFull.String():
			class = "treated as whole-document replacement"
		case len(got) > len(want):
			class = "server keeps more text"
		case len(got) < len(want):
			class = "server keeps less text"
		}
		c.Violate(fmt.Sprintf("mirror|%s|%s", cause, class), "server text equals the client's text",
			fmt.Sprintf("document %q, changes %s\nserver holds %q\nclient holds %q", doc, core.J(changes), got, want), cas)
	}
}

// ---- part B: histories on journal-like texts, freshness --------------------

var c01Journals = []string{
	"2001-01-01 shop\n    expenses:food  $5\n    assets:cash\n\n2001-01-05 shop\n",
	"2001-01-01 shop\n    expenses:food  $7\n    assets:bank\n\n2001-01-02 cafe\n    expenses:coffee  2 EUR\n    assets:cash\n\n2001-01-05 shop\n",
	"",
	"2001-01-01 🍕 pizza\r\n    expenses:food  $5\r\n    assets:cash\r\n\r\n2001-01-05 🍕 pizza\r\n",
	// includes the second URI's file (which exists in the editor only): the answers
	// for this text also depend on what the other document holds, or held
	"include other.journal\n\n2001-01-05 shop\n",
}

type c01Op struct {
	Kind string `json:"kind"` // open full edit close inline completion semfull symbols
	URI  int    `json:"uri"`
	Text int    `json:"text"`
}

func (o c01Op) String() string {
	switch o.Kind {
	case "open", "full", "edit":
		return fmt.Sprintf("%s(u%d,J%d)", o.Kind, o.URI, o.Text)
	}
	return fmt.Sprintf("%s(u%d)", o.Kind, o.URI)
}

func c01Ops(nuris int) []c01Op {
	var ops []c01Op
	for u := 0; u < nuris; u++ {
		for _, k := range []string{"open", "full", "edit"} {
			for t := range c01Journals {
				ops = append(ops, c01Op{k, u, t})
			}
		}
		for _, k := range []string{"close", "inline", "completion", "semfull", "symbols"} {
			ops = append(ops, c01Op{k, u, 0})
		}
	}
	return ops
}

var c01ResultID = regexp.MustCompile(`"resultId":"[^"]*",?`)

// answers of the read-only features for one open document
func c01Answers(s *wire.Session, uri, text string) []string {
	lines := strings.Count(text, "\n")
	var out []string
	add := func(name string, r wire.Reply) {
		res := c01ResultID.ReplaceAllString(r.Result, "")
		out = append(out, name+": "+res+"|"+r.Err+"|"+r.Panic)
	}
	add("documentSymbol", s.Call("textDocument/documentSymbol", wire.Doc(uri)))
	add("foldingRange", s.Call("textDocument/foldingRange", wire.Doc(uri)))
	add("formatting", s.Call("textDocument/formatting", `{"textDocument":{"uri":`+wire.Q(uri)+`},"options":{"tabSize":4,"insertSpaces":true}}`))
	add("completion", s.Call("textDocument/completion", wire.DocPos(uri, 1, 12)))
	add("hover", s.Call("textDocument/hover", wire.DocPos(uri, 1, 6)))
	add("inlineCompletion", s.Call("textDocument/inlineCompletion", wire.DocPos(uri, lines, 0)))
	add("semanticTokens", s.Call("textDocument/semanticTokens/full", wire.Doc(uri)))
	add("diagnostics", wire.Reply{Result: s.Client.Last(uri)})
	return out
}

func c01URIOf(u int) string {
	if u == 0 {
		return c01URI
	}
	return c01URI2
}

// c01History replays ops; returns state key, and violations are recorded.
func c01History(c *core.Ctx, ops []c01Op) (key string, applicable bool) {
	server.VerifxResetGlobals()
	s := wire.New()
	s.Initialize(wire.InitOpts{})
	s.Initialized()
	ref := map[int]*refbuf.Buffer{}
	cacheTouched := false
	version := 1
	for i, op := range ops {
		last := i == len(ops)-1
		uri := c01URIOf(op.URI)
		b, open := ref[op.URI]
		switch op.Kind {
		case "open":
			if open {
				return "", false
			}
			ref[op.URI] = refbuf.New(c01Journals[op.Text])
			s.DidOpen(uri, c01Journals[op.Text])
		case "full":
			if !open || b.String() == c01Journals[op.Text] {
				return "", false
			}
			version++
			ch := refbuf.Change{Text: c01Journals[op.Text]}
			s.Notify("textDocument/didChange", c01ChangeNotification(uri, version, []refbuf.Change{ch}))
			b.Apply(ch)
		case "edit":
			if !open || b.String() == c01Journals[op.Text] {
				return "", false
			}
			version++
			ch := b.DiffChange(c01Journals[op.Text])
			if ch.Range.Start == (refbuf.Pos{}) && ch.Range.End == (refbuf.Pos{}) {
				// the empty range at 0:0 is charged to the mirror part (known
				// to be indistinguishable from a range-less change); keep
				// histories free of it so that other defects stay visible
				return "", false
			}
			s.Notify("textDocument/didChange", c01ChangeNotification(uri, version, []refbuf.Change{ch}))
			b.Apply(ch)
		case "close":
			if !open {
				return "", false
			}
			delete(ref, op.URI)
			s.DidClose(uri)
		case "inline", "completion", "semfull", "symbols":
			if !open {
				return "", false
			}
			cacheTouched = true
			text := b.String()
			switch op.Kind {
			case "inline":
				s.Call("textDocument/inlineCompletion", wire.DocPos(uri, strings.Count(text, "\n"), 0))
			case "completion":
				s.Call("textDocument/completion", wire.DocPos(uri, 1, 12))
			case "semfull":
				s.Call("textDocument/semanticTokens/full", wire.Doc(uri))
			case "symbols":
				s.Call("textDocument/documentSymbol", wire.Doc(uri))
			}
		}
		if !last {
			continue
		}
		// the state key is taken before the oracle probes the server (the
		// probes populate caches themselves)
		var ks []string
		for u, b := range ref {
			ks = append(ks, fmt.Sprintf("u%d=%q", u, b.String()))
		}
		sort.Strings(ks)
		key = strings.Join(ks, ";") + "\n" + s.Srv.VerifxDump()
		// oracle after the last operation
		c.Res.Evaluations++
		if cacheTouched || op.Kind == "edit" {
			c.Res.Nontrivial++
		}
		cas := c01Case{Part: "history", Ops: ops}
		var kinds []string
		for _, o := range ops {
			kinds = append(kinds, o.Kind)
		}
		hist := strings.Join(kinds, ">")
		for u := 0; u < 2; u++ {
			uri := c01URIOf(u)
			got, ok := s.Srv.GetDocument(protocol.DocumentURI(uri))
			rb, open := ref[u]
			if !open {
				if ok {
					c.Violate("history|closed document still held|"+hist, "closed documents are forgotten", fmt.Sprintf("after %v the server still holds %q for %s", ops, got, uri), cas)
				}
				continue
			}
			if !ok || got != rb.String() {
				c.Violate("history|text differs|"+hist, "server text equals the client's text",
					fmt.Sprintf("after %v\nserver holds %q\nclient holds %q", ops, got, rb.String()), cas)
				continue
			}
			// freshness: answers equal those of a fresh server that only opened the
			// texts that are open now (the other document first)
			have := c01Answers(s, uri, rb.String())
			server.VerifxResetGlobals()
			f := wire.New()
			f.Initialize(wire.InitOpts{})
			f.Initialized()
			if ob, otherOpen := ref[1-u]; otherOpen {
				f.DidOpen(c01URIOf(1-u), ob.String())
			}
			f.DidOpen(uri, rb.String())
			want := c01Answers(f, uri, rb.String())
			for k := range want {
				if have[k] != want[k] {
					name := strings.SplitN(want[k], ":", 2)[0]
					c.Violate("freshness|"+name+"|"+hist, "answers are computed from the current text only",
						fmt.Sprintf("after %v\nserver answers %s\nfresh server   %s", ops, firstN(have[k], 700), firstN(want[k], 700)), cas)
				}
			}
		}
	}
	return key, true
}

func checkC01(c *core.Ctx) {
	if c.Replay != nil {
		var cs c01Case
		if err := jsonUnmarshal(c.Replay, &cs); err != nil {
			c.Res.InfraError = "bad replay: " + err.Error()
			return
		}
		if cs.Part == "mirror" {
			s := wire.New()
			s.Initialize(wire.InitOpts{})
			if cs.EarlierSession {
				// an earlier session of the URI (its change carried version 9)
				c01Sessions = 0
				c01Mirror(c, s, "a", []refbuf.Change{{Text: "b"}})
			}
			if cs.Version == 2 {
				c01Sessions = 1
			} else {
				c01Sessions = 0
			}
			c01Mirror(c, s, cs.Doc, cs.Changes)
		} else {
			c01History(c, cs.Ops)
		}
		return
	}
	s := wire.New()
	s.Initialize(wire.InitOpts{})
	maxUnits := 3
	pairUnits := 1
	depth := 4
	if c.Thorough() {
		maxUnits, pairUnits, depth = 4, 2, 5
	}
	// A1: every single change on every document of <= maxUnits units
	docs := c01Docs(maxUnits)
	c.Bound("mirror documents", fmt.Sprintf("all %d strings of <= %d units over {a, é, 😀, LF, CRLF}", len(docs), maxUnits))
	sampled := 0
	for _, d := range docs {
		if !c.Mine() {
			continue
		}
		b := refbuf.New(d)
		pos := c01Positions(b)
		for _, t := range c01Texts {
			c01Mirror(c, s, d, []refbuf.Change{{Text: t}})
		}
		for i, st := range pos {
			for _, en := range pos[i:] {
				for _, t := range c01Texts {
					ch := refbuf.Change{Ranged: true, Range: refbuf.Range{Start: st, End: en}, Text: t}
					c01Mirror(c, s, d, []refbuf.Change{ch})
					if sampled < 2 && len(d) > 3 && st.Char > 1 && t == "😀" {
						sampled++
						c.Sample(map[string]any{"part": "mirror", "document": d, "change": ch})
					}
				}
			}
		}
		if c.Expired() {
			return
		}
	}
	// A2: two changes in one notification (applied in order)
	pdocs := c01Docs(pairUnits + 1)
	c.Bound("two-change notifications", fmt.Sprintf("documents of <= %d units; first change: every range x {\"\", x, LF}; second: every insertion point x y, every range x \"\"; a range-less change of 3 texts before every ranged change and after every ranged change", pairUnits+1))
	for _, d := range pdocs {
		if !c.Mine() {
			continue
		}
		b := refbuf.New(d)
		pos := c01Positions(b)
		for i, st := range pos {
			for _, en := range pos[i:] {
				for _, t := range []string{"", "x", "\n"} {
					first := refbuf.Change{Ranged: true, Range: refbuf.Range{Start: st, End: en}, Text: t}
					mid := refbuf.New(d)
					mid.Apply(first)
					pos2 := c01Positions(mid)
					for j, st2 := range pos2 {
						c01Mirror(c, s, d, []refbuf.Change{first, {Ranged: true, Range: refbuf.Range{Start: st2, End: st2}, Text: "y"}})
						if pairUnits >= 2 || len(pos2) <= 12 {
							for _, en2 := range pos2[j+1:] {
								c01Mirror(c, s, d, []refbuf.Change{first, {Ranged: true, Range: refbuf.Range{Start: st2, End: en2}, Text: ""}})
							}
						}
					}
				}
			}
		}
		// a range-less (whole text) change as the first or the second of two changes
		for _, full := range []string{"", "x", "é\n😀"} {
			fb := refbuf.New(full)
			fpos := c01Positions(fb)
			for j, st2 := range fpos {
				for _, en2 := range fpos[j:] {
					for _, t := range []string{"", "y"} {
						if st2 == (refbuf.Pos{}) && en2 == (refbuf.Pos{}) {
							continue // the empty range at 0:0 is the recorded finding of the single-change part
						}
						c01Mirror(c, s, d, []refbuf.Change{{Text: full}, {Ranged: true, Range: refbuf.Range{Start: st2, End: en2}, Text: t}})
					}
				}
			}
			for i, st := range pos {
				for _, en := range pos[i:] {
					if st == (refbuf.Pos{}) && en == (refbuf.Pos{}) {
						continue
					}
					c01Mirror(c, s, d, []refbuf.Change{{Ranged: true, Range: refbuf.Range{Start: st, End: en}, Text: "y"}, {Text: full}})
				}
			}
		}
		if c.Expired() {
			return
		}
	}
	// B: histories with cache-populating requests, two URIs
	ops := c01Ops(2)
	c.Bound("histories", fmt.Sprintf("BFS depth %d over %d operations on two URIs and %d texts", depth, len(ops), len(c01Journals)))
	st := bfs.Search(len(ops), depth, 300000, "init", func(path []int) (string, bool) {
		if c.NShards > 1 && path[0]%c.NShards != c.Shard {
			return "", false
		}
		seq := make([]c01Op, len(path))
		for i, p := range path {
			seq[i] = ops[p]
		}
		key, ok := c01History(c, seq)
		if os.Getenv("C01DEBUG") != "" {
			fmt.Println(seq, ok, core.Hash(key))
		}
		if ok && sampled < 4 && len(seq) >= 3 && seq[len(seq)-1].Kind == "edit" {
			sampled++
			c.Sample(map[string]any{"part": "history", "ops": fmt.Sprint(seq)})
		}
		return key, ok
	}, c.Expired)
	c.Res.States += st.States
	c.Res.Transitions += st.Transitions
	c.Res.Traces += st.Transitions
	if st.StateCapHit {
		c.Cap("state cap in history search")
	}
}
