package props

import (
	"fmt"
	"os"
	"path/filepath"
	"sort"
	"strings"
	"time"

	"github.com/juev/hledger-lsp/internal/server"
	"github.com/juev/hledger-lsp/internal/verifx/core"
	"github.com/juev/hledger-lsp/internal/verifx/explore"
	"github.com/juev/hledger-lsp/internal/verifx/vsched"
	"github.com/juev/hledger-lsp/internal/verifx/wire"
)

func init() { core.Register("C14", checkC14) }

type c14Scenario struct {
	Name      string            `json:"name"`
	Files     map[string]string `json:"files"`
	Workspace bool              `json:"workspace"`
	Config    bool              `json:"config"`      // client supports workspace/configuration
	InitCfg   string            `json:"init_config"` // what the client answers at first
	Msgs      []wire.Msg        `json:"msgs"`
	Bound     int               `json:"bound"`
	// Gone: text that is part of no document state from message After on (an
	// unsaved edit discarded by closing the file): no later response may show it,
	// whatever is still being computed
	Gone []c14Gone `json:"gone,omitempty"`
}

type c14Gone struct {
	After int    `json:"after_message"`
	Text  string `json:"text"`
}

type c14Case struct {
	Scenario string `json:"scenario"`
	Schedule []int  `json:"schedule"`
	Bound    int    `json:"bound"`
}

const (
	c14Main0 = "include inc.journal\n\n2001-01-01 shop\n    expenses:food  $5\n    assets:cash  $-5\n"
	c14Main1 = "include inc.journal\n\n2001-01-01 shop\n    expenses:food  $5\n    assets:cash  $-5\n\n2001-01-03 bakery\n    expenses:bread  $2\n    assets:\n"
	c14Main2 = "2001-01-01 shop\n    expenses:food  $5\n    assets:wallet  $-4\n\n2001-01-04 market\n    expenses:veg  3 EUR\n    assets:\n"
	c14Inc0  = "account assets:bank\n\n2001-02-01 landlord\n    expenses:rent  100 USD\n    assets:bank  -100 USD\n"
	c14Inc1  = "account assets:savings\n\n2001-02-01 insurer\n    expenses:insurance  20 USD\n    assets:savings  -20 USD\n"
)

func c14Scenarios(thorough bool) []c14Scenario {
	files := map[string]string{"main.journal": c14Main0, "inc.journal": c14Inc0}
	b := func(q, t int) int {
		if thorough {
			return t
		}
		return q
	}
	return []c14Scenario{
		{Name: "S1-open-complete-change-complete", Files: files, Bound: b(2, 3), Msgs: []wire.Msg{
			{Op: "open", Doc: "main.journal", Text: c14Main0},
			{Op: "completion", Doc: "main.journal", Line: 4, Char: 11},
			{Op: "change", Doc: "main.journal", Text: c14Main1},
			{Op: "completion", Doc: "main.journal", Line: 8, Char: 11},
			{Op: "hover", Doc: "main.journal", Line: 3, Char: 8},
			{Op: "references", Doc: "main.journal", Line: 3, Char: 8},
			{Op: "inline", Doc: "main.journal", Line: 7, Char: 0},
			{Op: "drain"},
			{Op: "inline", Doc: "main.journal", Line: 7, Char: 0},
			{Op: "completion", Doc: "main.journal", Line: 8, Char: 11},
			{Op: "references", Doc: "main.journal", Line: 3, Char: 8},
		}},
		{Name: "S2-workspace-include", Files: files, Workspace: true, Bound: b(1, 2), Msgs: []wire.Msg{
			{Op: "initialized"},
			{Op: "open", Doc: "main.journal", Text: c14Main0},
			{Op: "open", Doc: "inc.journal", Text: c14Inc0},
			{Op: "change", Doc: "inc.journal", Text: c14Inc1},
			{Op: "completion", Doc: "main.journal", Line: 4, Char: 11},
			{Op: "formatting", Doc: "main.journal"},
			{Op: "save", Doc: "inc.journal"},
			{Op: "wsymbol", Text: ""},
			{Op: "drain"},
			{Op: "completion", Doc: "main.journal", Line: 4, Char: 11},
			{Op: "wsymbol", Text: ""},
		}},
		{Name: "S3-configuration-refresh", Files: files, Config: true, Bound: b(1, 2),
			InitCfg: `{"cli":{"path":"/nonexistent/h1"},"completion":{"maxResults":3}}`,
			Msgs: []wire.Msg{
				{Op: "initialized"},
				{Op: "config", Text: `{"cli":{"path":"/nonexistent/h2"},"completion":{"maxResults":2},"limits":{"maxIncludeDepth":3}}`},
				{Op: "config", Text: `{"cli":{"path":"/nonexistent/h3"},"completion":{"maxResults":1},"formatting":{"indentSize":2}}`},
				{Op: "open", Doc: "main.journal", Text: c14Main1},
				{Op: "completion", Doc: "main.journal", Line: 8, Char: 4},
				{Op: "formatting", Doc: "main.journal"},
				{Op: "codeaction", Doc: "main.journal"},
				{Op: "drain"},
				{Op: "completion", Doc: "main.journal", Line: 8, Char: 4},
				{Op: "formatting", Doc: "main.journal"},
				{Op: "codeaction", Doc: "main.journal"},
			}},
		{Name: "S6-configuration-pull-fails-then-succeeds", Files: files, Config: true, Bound: b(1, 2),
			InitCfg: "",
			Msgs: []wire.Msg{
				{Op: "initialized"},
				{Op: "config", Text: "EMPTY"},
				{Op: "config", Text: `{"completion":{"maxResults":1},"formatting":{"indentSize":2}}`},
				{Op: "open", Doc: "main.journal", Text: c14Main1},
				{Op: "completion", Doc: "main.journal", Line: 8, Char: 4},
				{Op: "drain"},
				{Op: "completion", Doc: "main.journal", Line: 8, Char: 4},
				{Op: "formatting", Doc: "main.journal"},
			}},
		{Name: "S7-two-partial-configurations", Files: files, Config: true, Bound: b(2, 3),
			InitCfg: `{"completion":{"maxResults":3}}`,
			Msgs: []wire.Msg{
				// the k-th pull is answered with the k-th payload: the first sets the
				// indent and a limit of 2, the second only lowers the limit to 1
				{Op: "configq", Text: `{"formatting":{"indentSize":2},"completion":{"maxResults":2}}`},
				{Op: "configq", Text: `{"completion":{"maxResults":1}}`},
				{Op: "open", Doc: "main.journal", Text: c14Main1},
				{Op: "drain"},
				{Op: "completion", Doc: "main.journal", Line: 8, Char: 4},
				{Op: "formatting", Doc: "main.journal"},
			}},
		// two documents outside the root's include tree, each including a file with
		// declarations of its own: their analyses run side by side in a workspace
		{Name: "S8-workspace-two-outside-documents", Workspace: true, Bound: b(1, 2),
			Files: map[string]string{
				"main.journal":  "commodity $1,000.00\naccount assets:cash\n\n2001-01-01 shop\n    expenses:food  $5\n    assets:cash\n",
				"side1.journal": "include decl1.journal\n\n2001-02-01 a\n    zzz:one  1 EUR\n    zzz:two  -1 EUR\n",
				"decl1.journal": "commodity 1.000,00 EUR\naccount zzz:one\n",
				"side2.journal": "include decl2.journal\n\n2001-03-01 b\n    zzz:one  1 CHF\n    zzz:two  -1 CHF\n",
				"decl2.journal": "commodity 1.000,00 CHF\naccount zzz:two\n",
				"third.journal": "2001-04-01 c\n    zzz:one  1 EUR\n    zzz:two  -1 CHF\n",
			},
			Msgs: []wire.Msg{
				{Op: "initialized"},
				{Op: "open", Doc: "side1.journal", Text: "include decl1.journal\n\n2001-02-01 a\n    zzz:one  1 EUR\n    zzz:two  -1 EUR\n"},
				{Op: "open", Doc: "side2.journal", Text: "include decl2.journal\n\n2001-03-01 b\n    zzz:one  1 CHF\n    zzz:two  -1 CHF\n"},
				{Op: "open", Doc: "third.journal", Text: "2001-04-01 c\n    zzz:one  1 EUR\n    zzz:two  -1 CHF\n"},
				{Op: "completion", Doc: "third.journal", Line: 1, Char: 4},
				{Op: "drain"},
				{Op: "diagnostics", Doc: "third.journal"},
				{Op: "diagnostics", Doc: "side1.journal"},
			}},
		// the included file is saved with other content while the including document's analysis may be running
		{Name: "S9-included-file-saved", Files: files, Bound: b(2, 3), Msgs: []wire.Msg{
			{Op: "open", Doc: "main.journal", Text: c14Main1},
			{Op: "savefile", Doc: "inc.journal", Text: c14Inc1},
			{Op: "completion", Doc: "main.journal", Line: 8, Char: 11},
			{Op: "drain"},
			{Op: "completion", Doc: "main.journal", Line: 8, Char: 11},
			{Op: "change", Doc: "main.journal", Text: c14Main0},
			{Op: "drain"},
			{Op: "completion", Doc: "main.journal", Line: 4, Char: 11},
		}},
		// the document is closed and opened again with the same text around the save:
		// the analysis of the first session must not record its tree for the second
		{Name: "S10-closed-and-opened-again-around-a-save", Files: files, Bound: b(2, 3), Msgs: []wire.Msg{
			{Op: "open", Doc: "main.journal", Text: c14Main1},
			{Op: "close", Doc: "main.journal"},
			{Op: "savefile", Doc: "inc.journal", Text: c14Inc1},
			{Op: "open", Doc: "main.journal", Text: c14Main1},
			{Op: "completion", Doc: "main.journal", Line: 8, Char: 11},
			{Op: "drain"},
			{Op: "completion", Doc: "main.journal", Line: 8, Char: 11},
		}},
		// a request that fills a per-document cache while the first analysis may not
		// have recorded the include tree yet: the payee of the last header has
		// postings in the included file only
		{Name: "S11-template-asked-before-the-tree-is-known", Files: files, Bound: b(2, 3), Msgs: []wire.Msg{
			{Op: "open", Doc: "main.journal", Text: "include inc.journal\n\n2001-03-01 landlord\n"},
			{Op: "inline", Doc: "main.journal", Line: 3, Char: 0},
			{Op: "drain"},
			{Op: "inline", Doc: "main.journal", Line: 3, Char: 0},
			{Op: "completion", Doc: "main.journal", Line: 3, Char: 0},
		}},
		// an included file's unsaved postings are discarded by closing it: the
		// template offered in the including document right afterwards, while that
		// document is analysed again, must not come from the discarded text
		{Name: "S12-template-after-the-included-file-was-closed", Files: files, Bound: b(1, 2), Msgs: []wire.Msg{
			{Op: "open", Doc: "main.journal", Text: "include inc.journal\n\n2001-03-01 landlord\n"},
			{Op: "drain"},
			{Op: "open", Doc: "inc.journal", Text: c14Inc0},
			{Op: "change", Doc: "inc.journal", Text: "2001-02-01 landlord\n    expenses:unsaved  7 USD\n    assets:unsaved  -7 USD\n"},
			{Op: "drain"},
			{Op: "inline", Doc: "main.journal", Line: 3, Char: 0},
			{Op: "close", Doc: "inc.journal"},
			{Op: "inline", Doc: "main.journal", Line: 3, Char: 0},
			{Op: "drain"},
			{Op: "inline", Doc: "main.journal", Line: 3, Char: 0},
		}, Gone: []c14Gone{{After: 6, Text: "expenses:unsaved"}}},
		{Name: "S4-two-docs-semantic-tokens", Files: files, Bound: b(1, 2), Msgs: []wire.Msg{
			{Op: "open", Doc: "main.journal", Text: c14Main0},
			{Op: "open", Doc: "inc.journal", Text: c14Inc0},
			{Op: "semfull", Doc: "main.journal"},
			{Op: "change", Doc: "main.journal", Text: c14Main2},
			{Op: "semdelta", Doc: "main.journal", Arg: "last"},
			{Op: "close", Doc: "inc.journal"},
			{Op: "wsymbol", Text: "a"},
			{Op: "symbols", Doc: "main.journal"},
			{Op: "drain"},
			{Op: "semdelta", Doc: "main.journal", Arg: "last"},
			{Op: "wsymbol", Text: "a"},
		}},
		{Name: "S5-open-close-reopen", Files: files, Bound: b(2, 3), Msgs: []wire.Msg{
			{Op: "open", Doc: "main.journal", Text: c14Main0},
			{Op: "close", Doc: "main.journal"},
			{Op: "open", Doc: "main.journal", Text: c14Main2},
			{Op: "completion", Doc: "main.journal", Line: 6, Char: 11},
			{Op: "definition", Doc: "main.journal", Line: 2, Char: 10},
			{Op: "drain"},
			{Op: "completion", Doc: "main.journal", Line: 6, Char: 11},
			{Op: "definition", Doc: "main.journal", Line: 2, Char: 10},
		}},
	}
}

func c14Dir(c *core.Ctx, sc c14Scenario) string {
	dir := filepath.Join(c.Scratch, "c14_"+sc.Name)
	_ = os.MkdirAll(dir, 0o755)
	writeFiles(dir, sc.Files)
	return dir
}

func c14Session(dir string, sc c14Scenario) *wire.Session {
	server.VerifxResetGlobals()
	// the disk is part of the scenario state ("savefile" writes to it): restore it
	writeFiles(dir, sc.Files)
	// disk is part of the scenario state: restore it (no message writes to disk,
	// but keep the invariant explicit)
	s := wire.New()
	root := ""
	if sc.Workspace {
		root = dir
	}
	s.Client.Config = sc.InitCfg
	s.Initialize(wire.InitOpts{Root: root, Configuration: sc.Config})
	return s
}

func c14Program(s *wire.Session, dir string, sc c14Scenario) []string {
	var out []string
	for _, m := range sc.Msgs {
		if m.Op == "drain" {
			vsched.Drain()
			out = append(out, "")
			continue
		}
		r := s.Do(m, dir)
		if r.Panic != "" {
			out = append(out, "PANIC "+r.Panic)
			continue
		}
		if m.IsRequest() {
			out = append(out, r.Result+"|"+r.Err)
		} else {
			out = append(out, "")
		}
	}
	return out
}

// c14Sequential runs the program with background work completed at spawn time
// for the spawns selected by inline (nil = all): the sequential replay and its
// "lagging" variants.
func c14Sequential(dir string, sc c14Scenario, inline func(int) bool) []string {
	s := c14Session(dir, sc)
	vsched.ResetSpawnCount()
	vsched.InlineHook = inline
	out := c14Program(s, dir, sc)
	vsched.InlineHook = nil
	vsched.RunDeferred()
	return out
}

func c14Run(dir string, sc c14Scenario, prefix []int) (vsched.Result, any) {
	s := c14Session(dir, sc)
	var out []string
	res := vsched.RunT0(prefix, func() {
		out = c14Program(s, dir, sc)
	})
	return res, out
}

func checkC14(c *core.Ctx) {
	scs := c14Scenarios(c.Thorough())
	nquick := len(scs)
	if c.Replay == nil {
		// as in C13: everything completely at the quick bounds first, then the
		// deeper bounds of the thorough tier inside shares of the remaining budget
		scs = c14Scenarios(false)
		nquick = len(scs)
		if c.Thorough() {
			quickBound := map[string]int{}
			for _, q := range scs {
				quickBound[q.Name] = q.Bound
			}
			for _, d := range c14Scenarios(true) {
				if d.Bound > quickBound[d.Name] {
					scs = append(scs, d)
				}
			}
		}
	}
	if c.Replay != nil {
		var cs c14Case
		if err := jsonUnmarshal(c.Replay, &cs); err != nil {
			c.Res.InfraError = "bad replay case: " + err.Error()
			return
		}
		for _, sc := range scs {
			if sc.Name != cs.Scenario {
				continue
			}
			dir := c14Dir(c, sc)
			want := c14Sequential(dir, sc, nil)
			lag := c14LagVariants(dir, sc)
			r, obs := c14Run(dir, sc, cs.Schedule)
			c14Oracle(c, sc, cs.Schedule, r, obs.([]string), want, lag)
			c.Note("sequential=%v", want)
			c.Note("observed=%v", obs)
		}
		return
	}
	racelog := os.Getenv("VERIF_RACELOG")
	racePath := ""
	if racelog != "" {
		racePath = fmt.Sprintf("%s.%d", racelog, os.Getpid())
	}
	raceSize := func() int64 {
		if racePath == "" {
			return 0
		}
		st, err := os.Stat(racePath)
		if err != nil {
			return 0
		}
		return st.Size()
	}
	execs := map[string]int64{}
	for si := 0; si < len(scs); si++ {
		if si == nquick {
			// cheapest first: what the cheap scenarios leave of their shares goes to the expensive ones
			sort.SliceStable(scs[nquick:], func(a, b int) bool { return execs[scs[nquick+a].Name] < execs[scs[nquick+b].Name] })
		}
		sc := scs[si]
		stop := c.Expired
		label := sc.Name
		if si >= nquick {
			label = fmt.Sprintf("%s, deeper (bound %d)", sc.Name, sc.Bound)
			share := time.Until(c.Deadline) / time.Duration(len(scs)-si)
			until := time.Now().Add(share)
			stop = func() bool { return c.Expired() || time.Now().After(until) }
		}
		dir := c14Dir(c, sc)
		want := c14Sequential(dir, sc, nil)
		want2 := c14Sequential(dir, sc, nil)
		if core.J(want) != core.J(want2) {
			c.Res.InfraError = "sequential replay is not deterministic in " + sc.Name + "\n" + core.J(want) + "\n" + core.J(want2)
			return
		}
		for i, w := range want {
			if strings.HasPrefix(w, "PANIC ") {
				cls := "panic"
				if strings.Contains(w, "deadlock:") {
					cls = "deadlock"
				}
				c.Violate(fmt.Sprintf("sequential run|%s|msg%d:%s|%s", sc.Name, i, sc.Msgs[i].Op, cls), "no crash and no deadlock",
					fmt.Sprintf("message %d %s in the sequential run (every background computation finished before the next message): %s", i, sc.Msgs[i], firstN(w, 1500)),
					c14Case{sc.Name, nil, sc.Bound})
			}
		}
		lag := c14LagVariants(dir, sc)
		outcomes := map[string]bool{}
		lastRace := raceSize()
		ex := &explore.Explorer{
			Bound: sc.Bound, Shard: c.Shard, NShards: c.NShards, Stop: stop,
			Run: func(prefix []int) (vsched.Result, any) { return c14Run(dir, sc, prefix) },
			Check: func(choices []int, r vsched.Result, obs any, pre int) {
				o := obs.([]string)
				outcomes[core.Hash(core.J(o))] = true
				c.Res.Evaluations++
				if pre > 0 {
					c.Res.Nontrivial++
				}
				if sz := raceSize(); sz != lastRace {
					// the race detector reported during this schedule
					b, _ := os.ReadFile(racePath)
					if int64(len(b)) >= lastRace {
						for _, rep := range core.SplitRaceReports(string(b[lastRace:])) {
							c.Violate("race|"+core.RaceSignature(rep), "no data race",
								firstN(rep, 2500), map[string]any{"scenario": sc.Name, "schedule": choices, "bound": sc.Bound})
						}
					}
					lastRace = sz
				}
				if !c14Oracle(c, sc, choices, r, o, want, lag) && c.Res.Counters["samples_"+sc.Name] < 1 && pre > 0 {
					c.Res.Counters["samples_"+sc.Name]++
					c.Sample(map[string]any{"scenario": sc.Name, "schedule": choices, "preemptions": pre})
				}
			},
		}
		ex.Explore()
		if ex.InfraError != "" {
			c.Res.InfraError = sc.Name + ": " + ex.InfraError
			return
		}
		if ex.Stopped {
			c.Cap("stopped inside scenario " + label)
		}
		if si < nquick {
			execs[sc.Name] = int64(ex.Executions)
		}
		c.Res.States += ex.Executions
		c.Res.Transitions += ex.Transitions
		c.Res.Traces += ex.Executions
		c.Res.Outcomes[label] = int64(len(outcomes))
		complete := "complete"
		if ex.Stopped {
			complete = fmt.Sprintf("stopped after %d executions", ex.Executions)
		}
		c.Bound(label, fmt.Sprintf("preemption bound %d, %d messages, max %d points, %d threads, %s", sc.Bound, len(sc.Msgs), ex.MaxPoints, ex.MaxThreads, complete))
		if c.Expired() {
			return
		}
	}
}

func firstN(s string, n int) string {
	if len(s) > n {
		return s[:n]
	}
	return s
}

// c14Resource: which piece of state the background computation spawned by
// message m refreshes ("" = the message spawns nothing).
func c14Resource(m wire.Msg) string {
	switch m.Op {
	case "open", "change":
		return "doc:" + m.Doc
	case "savefile", "save", "close":
		// saving or closing a file starts a new analysis of the documents that include it
		return "reanalysis"
	case "initialized", "config", "configq":
		return "config"
	}
	return ""
}

type c14Lag struct {
	accept []map[string]bool // responses acceptable at message i
	any    []map[string]bool // responses seen in any lag variant (for classification)
}

// c14LagVariants runs the program sequentially with every subset of the
// background computations postponed (to the next drain, or to the end). The
// server must never make a request wait for background work, so a response may
// legitimately lack results that are still being computed. What it may not do
// is use the result of a superseded analysis of a document whose newer text it
// already holds. Hence variant V is coherent at request i iff, for every
// document, the analyses completed before i are none at all or include the
// newest one spawned before i. Configuration refreshes need a round trip to the
// client, so any set of completed refreshes is coherent; after a drain
// everything is complete and only the sequential response is acceptable.
func c14LagVariants(dir string, sc c14Scenario) c14Lag {
	type sp struct {
		msg int
		res string
	}
	var spawns []sp
	for i, m := range sc.Msgs {
		if r := c14Resource(m); r != "" {
			spawns = append(spawns, sp{i, r})
		}
	}
	n := len(spawns)
	if n > 8 {
		n = 8
	}
	lag := c14Lag{accept: make([]map[string]bool, len(sc.Msgs)), any: make([]map[string]bool, len(sc.Msgs))}
	for i := range lag.accept {
		lag.accept[i] = map[string]bool{}
		lag.any[i] = map[string]bool{}
	}
	for mask := 0; mask < 1<<n; mask++ {
		m := mask
		out := c14Sequential(dir, sc, func(i int) bool { return i >= n || m&(1<<i) != 0 })
		lastDrain := -1
		for i, r := range out {
			if sc.Msgs[i].Op == "drain" {
				lastDrain = i
			}
			if !sc.Msgs[i].IsRequest() {
				continue
			}
			lag.any[i][r] = true
			// coherence of this variant at request i
			latest := map[string]int{}
			done := map[string]map[int]bool{}
			for k, s := range spawns {
				if s.msg > i {
					break
				}
				latest[s.res] = k
				completed := s.msg < lastDrain || k >= n || m&(1<<k) != 0
				if completed {
					if done[s.res] == nil {
						done[s.res] = map[int]bool{}
					}
					done[s.res][k] = true
				}
			}
			coherent := true
			for res, d := range done {
				if res == "config" {
					continue
				}
				if len(d) > 0 && !d[latest[res]] {
					coherent = false
				}
			}
			if lastDrain >= 0 {
				// a computation postponed past a newer one of the same resource
				// and then completed at the drain is a reordering the sequential
				// replay never shows: not acceptable after that drain
				for ka, sa := range spawns {
					for kb, sb := range spawns {
						if ka < kb && sa.res == sb.res && sb.msg < lastDrain && ka < n {
							aDeferred := m&(1<<ka) == 0
							bInline := kb >= n || m&(1<<kb) != 0
							if aDeferred && bInline {
								coherent = false
							}
						}
					}
				}
			}
			// after a drain with nothing spawned since, everything is complete:
			// only the response of the sequential run (all computations inline) is
			// acceptable then, whatever was postponed before the drain
			quiescent := lastDrain >= 0
			for _, s := range spawns {
				if s.msg <= i && s.msg > lastDrain {
					quiescent = false
				}
			}
			if quiescent && m != 1<<n-1 {
				coherent = false
			}
			if coherent {
				lag.accept[i][r] = true
			}
		}
	}
	return lag
}

func c14Oracle(c *core.Ctx, sc c14Scenario, choices []int, r vsched.Result, o, want []string, lag c14Lag) (violated bool) {
	cs := c14Case{sc.Name, choices, sc.Bound}
	if r.Failure != "" {
		c.Violate("sched|"+r.Failure+"|"+sc.Name, "no deadlock / termination", "execution ended with "+r.Failure, cs)
		return true
	}
	if len(r.Panics) > 0 {
		c.Violate("panic|"+sc.Name+"|"+firstLine(fmt.Sprint(r.Panics[0])), "no crash", fmt.Sprint(r.Panics[0]), cs)
		return true
	}
	if r.BlockedBehindClient > 0 {
		// the thread that handles the client's messages waited for a lock which a
		// background computation held while it was calling the client: a slow or
		// blocked client then blocks every later notification and request
		c.Violate("blocked|"+sc.Name+"|message handler waits for a lock held across a call to the client", "background work never blocks later notifications and requests",
			fmt.Sprintf("%d lock acquisition(s) of the message-handling thread found the lock held by a background computation that was inside a call to the client", r.BlockedBehindClient), cs)
		violated = true
	}
	for i := range want {
		if i >= len(o) {
			break
		}
		if strings.HasPrefix(o[i], "PANIC ") {
			c.Violate("panic|"+sc.Name+"|"+firstLine(o[i]), "no crash", o[i], cs)
			violated = true
			continue
		}
		gone := false
		for _, g := range sc.Gone {
			if i > g.After && strings.Contains(o[i], g.Text) {
				gone = true
				violated = true
				c.Violate(fmt.Sprintf("response|%s|msg%d:%s|shows text that was discarded before the request", sc.Name, i, sc.Msgs[i].Op), "response computed from the document state at the moment of the request",
					fmt.Sprintf("message %d %s: response %s\n%q is part of no document since message %d", i, sc.Msgs[i], firstN(o[i], 600), g.Text, g.After), cs)
			}
		}
		if gone || o[i] == want[i] || lag.accept[i][o[i]] {
			continue
		}
		class := "corrupt"
		if lag.any[i][o[i]] {
			class = "superseded-result-used"
		}
		violated = true
		sig := fmt.Sprintf("response|%s|msg%d:%s|%s", sc.Name, i, sc.Msgs[i].Op, class)
		c.Violate(sig, "response equals sequential replay",
			fmt.Sprintf("message %d %s: response %s\nsequential replay: %s", i, sc.Msgs[i], firstN(o[i], 600), firstN(want[i], 600)), cs)
	}
	return violated
}

func firstLine(s string) string {
	if i := strings.IndexByte(s, '\n'); i >= 0 {
		return s[:i]
	}
	return s
}
