package props

import (
	"fmt"
	"os"
	"path/filepath"
	"sort"
	"strings"
	"time"

	"github.com/juev/hledger-lsp/internal/server"
	"github.com/juev/hledger-lsp/internal/verifx/core"
	"github.com/juev/hledger-lsp/internal/verifx/explore"
	"github.com/juev/hledger-lsp/internal/verifx/vsched"
	"github.com/juev/hledger-lsp/internal/verifx/wire"
)

func init() { core.Register("C13", checkC13) }

// version texts with pairwise distinguishable diagnostics
func c13Text(v int, withInclude bool) string {
	inc := ""
	if withInclude {
		inc = "include inc.journal\n\n"
	}
	switch v % 5 {
	case 0:
		return inc + "2001-01-01 shop\n    expenses:food  $5\n    assets:cash  $-5\n"
	case 1:
		return inc + "2001-01-01 shop\n    expenses:food  $5\n    assets:cash  $-4\n"
	case 2:
		return inc + "2001-01-01 shop\n    expenses:food  $5 @@\n    assets:cash\n"
	case 3:
		return inc + "2001-01-01 shop\n    expenses:food  $5\n    assets:cash  $-2\n"
	default:
		return inc + "2001-01-01 shop\n    expenses:food  $7\n    assets:cash  $-5\n\n2001-01-02 x\n    a:b  1 EUR\n    a:c  -3 EUR\n"
	}
}

type c13Msg struct {
	Doc     int    `json:"doc"`
	Version int    `json:"version"`           // 0 = didOpen
	Special string `json:"special,omitempty"` // "", "empty", "blank", "first" (the text of version 0 again), "declA/B/C" (account declarations differ), "drain" (no message: all background work finishes first)
}

type c13Scenario struct {
	Name      string   `json:"name"`
	Msgs      []c13Msg `json:"msgs"`
	Workspace bool     `json:"workspace"`
	Include   bool     `json:"include"`
	Bound     int      `json:"bound"`
}

type c13Case struct {
	Scenario c13Scenario `json:"scenario"`
	Schedule []int       `json:"schedule"`
}

func c13Dir(c *core.Ctx, sc c13Scenario) string {
	dir := filepath.Join(c.Scratch, "c13_"+sc.Name)
	_ = os.MkdirAll(dir, 0o755)
	if sc.Include {
		_ = os.WriteFile(filepath.Join(dir, "inc.journal"), []byte("2001-02-01 included\n    a:x  1 USD\n    a:y  -1 USD\n"), 0o644)
	}
	// disk copies of the documents (initial versions)
	for d := 0; d < 2; d++ {
		_ = os.WriteFile(filepath.Join(dir, c13DocName(d)), []byte(c13Text(d*2, sc.Include)), 0o644)
	}
	return dir
}

func c13DocName(d int) string {
	if d == 0 {
		return "main.journal"
	}
	return "second.journal"
}

func c13VersionText(sc c13Scenario, m c13Msg) string {
	switch m.Special {
	case "empty":
		return ""
	case "blank":
		return " \n\n"
	case "first":
		return c13Text(m.Doc*2, sc.Include)
	case "second":
		// the text of version 1 again (an edit that changes nothing)
		return c13Text(m.Doc*2+1, sc.Include)
	case "declA":
		// one of the two accounts declared: one warning
		return "account a:one\n\n2001-01-01 d\n    a:one  1 USD\n    a:two  -1 USD\n"
	case "declB":
		// both declared: no warning
		return "account a:one\naccount a:two\n\n2001-01-01 d\n    a:one  1 USD\n    a:two  -1 USD\n"
	case "usesinc":
		// what is warned about depends on the declarations of inc.journal
		return "include inc.journal\n\n2001-01-01 d\n    a:one  1 USD\n    a:two  -1 USD\n"
	case "usesinc2":
		return "include inc.journal\n\n2001-01-01 d\n    a:one  2 USD\n    a:two  -2 USD\n"
	case "declC":
		// the other one declared
		return "account a:two\n\n2001-01-01 d\n    a:one  1 USD\n    a:two  -1 USD\n"
	}
	// distinct content per (doc, version)
	return c13Text(m.Doc*2+m.Version, sc.Include)
}

func c13Session(dir string, sc c13Scenario) *wire.Session {
	server.VerifxResetGlobals()
	s := wire.New()
	root := ""
	if sc.Workspace {
		root = dir
	}
	s.Initialize(wire.InitOpts{Root: root})
	s.Initialized()
	return s
}

// c13Run executes the burst under a schedule prefix; the observation is the
// last published diagnostics per document plus the publish order.
const (
	c13IncInitial = "account a:one\n\n2001-02-01 included\n    a:one  1 USD\n    a:one  -1 USD\n"
	c13IncSaved   = "account a:two\n\n2001-02-01 included\n    a:two  1 USD\n    a:two  -1 USD\n"
)

func c13HasSave(sc c13Scenario) bool {
	for _, m := range sc.Msgs {
		if m.Special == "saveinc" {
			return true
		}
	}
	return false
}

func c13Run(dir string, sc c13Scenario, prefix []int) (vsched.Result, any) {
	if c13HasSave(sc) {
		// the disk is part of the state: back to the initial included file
		_ = os.WriteFile(filepath.Join(dir, "inc.journal"), []byte(c13IncInitial), 0o644)
	}
	s := c13Session(dir, sc)
	uris := []string{wire.URI(filepath.Join(dir, c13DocName(0))), wire.URI(filepath.Join(dir, c13DocName(1)))}
	res := vsched.RunT0(prefix, func() {
		for _, m := range sc.Msgs {
			if m.Special == "drain" {
				vsched.Drain()
				continue
			}
			if m.Special == "saveinc" {
				// the included file gets new content on disk and the server is told (didSave of a file that is not open)
				_ = os.WriteFile(filepath.Join(dir, "inc.journal"), []byte(c13IncSaved), 0o644)
				s.DidSave(wire.URI(filepath.Join(dir, "inc.journal")))
				continue
			}
			if m.Special == "close" {
				s.DidClose(uris[m.Doc])
				continue
			}
			if m.Version == 0 {
				s.DidOpen(uris[m.Doc], c13VersionText(sc, m))
			} else {
				s.DidChangeFull(uris[m.Doc], c13VersionText(sc, m), m.Version+1)
			}
		}
	})
	obs := map[string]string{}
	for d, u := range uris {
		obs[fmt.Sprint(d)] = s.Client.Last(u)
	}
	var order []string
	for _, p := range s.Client.Log {
		order = append(order, core.Hash(p.JSON))
	}
	obs["order"] = strings.Join(order, ",")
	return res, obs
}

func c13Expected(dir string, sc c13Scenario) map[string]string {
	exp := map[string]string{}
	final := map[int]c13Msg{}
	for _, m := range sc.Msgs {
		if m.Special != "drain" && m.Special != "saveinc" && m.Special != "close" {
			final[m.Doc] = m
		}
	}
	if c13HasSave(sc) {
		// the fresh server sees the final disk state
		_ = os.WriteFile(filepath.Join(dir, "inc.journal"), []byte(c13IncSaved), 0o644)
	}
	for d, m := range final {
		// a fresh server that is only given the final texts (all final texts of
		// the other documents opened first, as they are the workspace state)
		s := c13Session(dir, sc)
		u := wire.URI(filepath.Join(dir, c13DocName(d)))
		s.DidOpen(u, c13VersionText(sc, m))
		exp[fmt.Sprint(d)] = s.Client.Last(u)
	}
	return exp
}

func c13Scenarios(thorough bool) []c13Scenario {
	var out []c13Scenario
	burst := func(n int) []c13Msg {
		var ms []c13Msg
		for v := 0; v <= n; v++ {
			ms = append(ms, c13Msg{Doc: 0, Version: v})
		}
		return ms
	}
	b2 := 2
	for n := 1; n <= 4; n++ {
		bound := b2
		if n == 4 {
			bound = 1
		}
		if thorough {
			bound++
			if n == 3 {
				bound = 3
			}
		}
		out = append(out, c13Scenario{Name: fmt.Sprintf("one-doc-%d-changes", n), Msgs: burst(n), Bound: bound})
	}
	// workspace and include variants
	for _, n := range []int{1, 2} {
		bound := 2
		if thorough {
			bound = 3
		}
		if n == 2 && !thorough {
			bound = 1
		}
		out = append(out, c13Scenario{Name: fmt.Sprintf("ws-inc-%d-changes", n), Msgs: burst(n), Workspace: true, Include: true, Bound: bound})
		out = append(out, c13Scenario{Name: fmt.Sprintf("inc-%d-changes", n), Msgs: burst(n), Include: true, Bound: bound})
	}
	// unusual versions: a superseded or final version that is empty or blank
	// (select-all + delete, then paste), and a text that comes back (A B A)
	sb := 2
	if thorough {
		sb = 3
	}
	out = append(out,
		c13Scenario{Name: "blank-in-the-middle", Msgs: []c13Msg{{Doc: 0, Version: 0}, {Doc: 0, Version: 3, Special: "blank"}, {Doc: 0, Version: 1}}, Bound: sb},
		c13Scenario{Name: "empty-in-the-middle", Msgs: []c13Msg{{Doc: 0, Version: 0}, {Doc: 0, Version: 1, Special: "empty"}, {Doc: 0, Version: 2}}, Bound: sb},
		c13Scenario{Name: "blank-at-the-end", Msgs: []c13Msg{{Doc: 0, Version: 0}, {Doc: 0, Version: 1}, {Doc: 0, Version: 2, Special: "blank"}}, Bound: sb},
		c13Scenario{Name: "text-comes-back", Msgs: []c13Msg{{Doc: 0, Version: 0}, {Doc: 0, Version: 1}, {Doc: 0, Version: 2, Special: "first"}}, Bound: sb},
	)
	out = append(out,
		// the text returns to one whose diagnostics were already published
		c13Scenario{Name: "text-comes-back-after-publication", Msgs: []c13Msg{{Doc: 0, Version: 0}, {Special: "drain"}, {Doc: 0, Version: 1}, {Doc: 0, Version: 2, Special: "first"}}, Bound: sb},
		// an edit that leaves the text as it is, while the analysis of that text may still be running
		c13Scenario{Name: "same-text-twice", Msgs: []c13Msg{{Doc: 0, Version: 0}, {Special: "drain"}, {Doc: 0, Version: 1}, {Doc: 0, Version: 2, Special: "second"}}, Bound: sb},
		// workspace: the declarations of the document change from version to version
		c13Scenario{Name: "ws-declarations-change", Workspace: true, Msgs: []c13Msg{{Doc: 0, Version: 0, Special: "declA"}, {Doc: 0, Version: 1, Special: "declB"}, {Doc: 0, Version: 2, Special: "declC"}}, Bound: sb},
		c13Scenario{Name: "ws-declarations-come-back", Workspace: true, Msgs: []c13Msg{{Doc: 0, Version: 0, Special: "declA"}, {Special: "drain"}, {Doc: 0, Version: 1, Special: "declB"}, {Doc: 0, Version: 2, Special: "declA"}}, Bound: sb},
	)
	// the included file is saved with other declarations while an analysis of the including document may be running
	for _, ws := range []bool{false, true} {
		name := "included-file-saved"
		if ws {
			name = "ws-included-file-saved"
		}
		out = append(out, c13Scenario{Name: name, Workspace: ws, Include: true, Msgs: []c13Msg{{Doc: 0, Version: 0, Special: "usesinc"}, {Special: "saveinc"}, {Doc: 0, Version: 1, Special: "usesinc2"}}, Bound: sb})
		// no later change of the including document: its first analysis may still be running when the file is saved
		out = append(out, c13Scenario{Name: name + "-and-nothing-else", Workspace: ws, Include: true, Msgs: []c13Msg{{Doc: 0, Version: 0, Special: "usesinc"}, {Special: "saveinc"}}, Bound: sb})
		// the text returns to what it was before the included file was saved (same text, other meaning)
		out = append(out, c13Scenario{Name: name + "-text-comes-back", Workspace: ws, Include: true, Msgs: []c13Msg{{Doc: 0, Version: 0, Special: "usesinc"}, {Special: "saveinc"}, {Doc: 0, Version: 1, Special: "usesinc2"}, {Doc: 0, Version: 2, Special: "usesinc"}}, Bound: sb})
	}
	// the document is closed and opened again with the same text while its first
	// analysis may still be running, the included file being saved in between: the
	// analysis of the first session must not be taken for the second session's
	for _, ws := range []bool{false, true} {
		name := "closed-and-opened-again-around-a-save"
		if ws {
			name = "ws-" + name
		}
		out = append(out, c13Scenario{Name: name, Workspace: ws, Include: true, Msgs: []c13Msg{{Doc: 0, Version: 0, Special: "usesinc"}, {Doc: 0, Special: "close"}, {Special: "saveinc"}, {Doc: 0, Version: 0, Special: "usesinc"}}, Bound: sb})
		out = append(out, c13Scenario{Name: name + "-and-a-change", Workspace: ws, Include: true, Msgs: []c13Msg{{Doc: 0, Version: 0, Special: "usesinc"}, {Doc: 0, Version: 1, Special: "usesinc2"}, {Doc: 0, Special: "close"}, {Special: "saveinc"}, {Doc: 0, Version: 0, Special: "usesinc2"}}, Bound: sb})
	}
	// two documents: 2+2 and 2+3 messages, interleaved
	two := []c13Msg{{Doc: 0, Version: 0}, {Doc: 1, Version: 0}, {Doc: 0, Version: 1}, {Doc: 1, Version: 1}}
	bound := 1
	if thorough {
		bound = 2
	}
	out = append(out, c13Scenario{Name: "two-docs-2+2", Msgs: two, Bound: bound})
	out = append(out, c13Scenario{Name: "two-docs-2+3", Msgs: append(append([]c13Msg{}, two...), c13Msg{Doc: 1, Version: 2}), Bound: bound})
	return out
}

func checkC13(c *core.Ctx) {
	if c.Replay != nil {
		var cs c13Case
		if err := jsonUnmarshal(c.Replay, &cs); err != nil {
			c.Res.InfraError = "bad replay case: " + err.Error()
			return
		}
		dir := c13Dir(c, cs.Scenario)
		exp := c13Expected(dir, cs.Scenario)
		_, obs := c13Run(dir, cs.Scenario, cs.Schedule)
		c13Oracle(c, cs.Scenario, cs.Schedule, obs.(map[string]string), exp)
		c.Note("expected=%v", exp)
		c.Note("observed=%v", obs)
		return
	}
	// every scenario is explored completely at the quick tier's bound first; the
	// thorough tier then explores each one again at its deeper bound, sharing out
	// what is left of the time budget (a scenario that does not finish inside its
	// share is reported as capped, the others are still reached)
	scs := c13Scenarios(false)
	nquick := len(scs)
	if c.Thorough() {
		quickBound := map[string]int{}
		for _, q := range scs {
			quickBound[q.Name] = q.Bound
		}
		for _, d := range c13Scenarios(true) {
			if d.Bound > quickBound[d.Name] {
				scs = append(scs, d)
			}
		}
	}
	execs := map[string]int64{}
	for si := 0; si < len(scs); si++ {
		if si == nquick {
			// cheapest first: what the cheap scenarios leave of their shares goes to the expensive ones
			sort.SliceStable(scs[nquick:], func(a, b int) bool { return execs[scs[nquick+a].Name] < execs[scs[nquick+b].Name] })
		}
		sc := scs[si]
		stop := c.Expired
		label := sc.Name
		if si >= nquick {
			label = fmt.Sprintf("%s, deeper (bound %d)", sc.Name, sc.Bound)
			share := time.Until(c.Deadline) / time.Duration(len(scs)-si)
			until := time.Now().Add(share)
			stop = func() bool { return c.Expired() || time.Now().After(until) }
		}
		dir := c13Dir(c, sc)
		exp := c13Expected(dir, sc)
		// determinism of the harness: same schedule twice, same observation
		_, o1 := c13Run(dir, sc, nil)
		_, o2 := c13Run(dir, sc, nil)
		if core.J(o1) != core.J(o2) {
			c.Res.InfraError = "nondeterministic replay of the default schedule in " + sc.Name
			return
		}
		outcomes := map[string]bool{}
		ex := &explore.Explorer{
			Bound: sc.Bound, Shard: c.Shard, NShards: c.NShards, Stop: stop,
			Run: func(prefix []int) (vsched.Result, any) { return c13Run(dir, sc, prefix) },
			Check: func(choices []int, r vsched.Result, obs any, pre int) {
				o := obs.(map[string]string)
				outcomes[o["order"]] = true
				c.Res.Evaluations++
				if r.Failure != "" {
					c.Violate("sched|"+r.Failure+"|"+sc.Name, "terminates", "execution ended with "+r.Failure, c13Case{sc, choices})
					return
				}
				if len(r.Panics) > 0 {
					c.Violate("panic|"+sc.Name, "no panic", fmt.Sprint(r.Panics[0]), c13Case{sc, choices})
					return
				}
				if c13StaleLast(sc, o) {
					c.Res.Nontrivial++
				}
				if !c13Oracle(c, sc, choices, o, exp) && c.Res.Counters["samples_"+sc.Name] < 1 {
					c.Res.Counters["samples_"+sc.Name]++
					c.Sample(map[string]any{"scenario": sc.Name, "schedule": choices, "preemptions": pre, "publish_order": o["order"]})
				}
			},
		}
		ex.Explore()
		if ex.InfraError != "" {
			c.Res.InfraError = sc.Name + ": " + ex.InfraError
			return
		}
		if ex.Stopped {
			c.Cap("stopped inside scenario " + label)
		}
		if si < nquick {
			execs[sc.Name] = int64(ex.Executions)
		}
		c.Res.States += ex.Executions
		c.Res.Transitions += ex.Transitions
		c.Res.Traces += ex.Executions
		c.Res.Outcomes[label] = int64(len(outcomes))
		complete := "complete"
		if ex.Stopped {
			complete = fmt.Sprintf("stopped after %d executions", ex.Executions)
		}
		c.Bound(label, fmt.Sprintf("preemption bound %d, %d messages, max %d points, %d threads, %s", sc.Bound, len(sc.Msgs), ex.MaxPoints, ex.MaxThreads, complete))
		c.Count("executions_with_preemption", ex.Preempted)
		if c.Expired() {
			return
		}
	}
}

// c13StaleLast: non-trivial schedule = the notification published last for some
// document was not the first one published for it, i.e. publish order was
// really decided by the schedule (more than one publish happened and the last
// two were from different versions).
func c13StaleLast(sc c13Scenario, o map[string]string) bool {
	return strings.Count(o["order"], ",") >= 1
}

func c13Oracle(c *core.Ctx, sc c13Scenario, choices []int, o, exp map[string]string) (violated bool) {
	for d, want := range exp {
		got := o[d]
		if got == want {
			continue
		}
		violated = true
		// observation class: which version's diagnostics were published last
		which := "unknown"
		for _, m := range sc.Msgs {
			if fmt.Sprint(m.Doc) != d {
				continue
			}
			one := c13Scenario{Name: sc.Name, Msgs: []c13Msg{m}, Workspace: sc.Workspace, Include: sc.Include}
			_ = one
		}
		if got == "" {
			which = "nothing published"
		} else {
			which = "stale"
		}
		sig := fmt.Sprintf("final-publish|%s|%s", sc.Name, which)
		c.Violate(sig, "last published diagnostics are those of the latest content",
			fmt.Sprintf("doc %s: last published %s, expected (fresh server on final text) %s", d, got, want),
			c13Case{sc, choices})
	}
	return violated
}
