package props

import (
	"fmt"
	"reflect"
	"sort"
	"strings"

	"github.com/shopspring/decimal"

	"github.com/juev/hledger-lsp/internal/ast"
	"github.com/juev/hledger-lsp/internal/parser"
	"github.com/juev/hledger-lsp/internal/verifx/core"
	"github.com/juev/hledger-lsp/internal/verifx/gmodel"
	"github.com/juev/hledger-lsp/internal/verifx/wire"
)

func init() { core.Register("C07", checkC07) }

// entry templates (no Y / partial dates: no entry legitimately depends on another)
func c07Templates() map[string]gmodel.Entry {
	de := gmodel.DirectiveEntries()
	t := map[string]gmodel.Entry{}
	for _, k := range []string{"account", "account-comment", "commodity", "commodity-fmt", "include", "price", "default-commodity", "comment", "comment-tag"} {
		t[k] = de[k]
	}
	d := gmodel.Default()
	t["tx"] = d.Entries[0]
	t["tx-balanced"] = d.Entries[1]
	// a richer transaction: status, code, payee|note, comment with tags, virtual posting, cost, assertion
	code := "42"
	t["tx-rich"] = gmodel.Entry{Kind: gmodel.EntryTx, Tx: &gmodel.Tx{
		Date: gmodel.Date{Y: 2001, M: 3, D: 4, Sep: "/", Pad: true}, Status: "*", Code: &code, Gap: 1,
		HeaderKind: gmodel.HeaderPayeeNote, Payee: "Acme", Note: "monthly", PipeBefore: 1, PipeAfter: 1,
		Comment: &gmodel.Comment{Text: " k:v", Tags: []gmodel.Tag{{Name: "k", Value: "v"}}},
		Postings: []gmodel.Posting{
			{Indent: "    ", Account: "assets:broker", Sep: "  ", Amount: &gmodel.Amount{Num: gmodel.Num("10", "10"), Sym: "ACME Inc.", Quoted: true, Side: gmodel.SideRight, Gap: 1},
				Cost: &gmodel.Cost{Before: 1, After: 1, Amount: gmodel.Amount{Num: gmodel.Num("2.50", "5/2"), Sym: "$", Side: gmodel.SideLeft}}},
			{Indent: "    ", Kind: gmodel.KindVirtual, Account: "budget:invest", Sep: "  ", Amount: &gmodel.Amount{Num: gmodel.Num("25", "25"), Neg: true, Sym: "$", Side: gmodel.SideLeft}},
			{Indent: "    ", Account: "assets:cash", Sep: "  ", Amount: &gmodel.Amount{Num: gmodel.Num("25.00", "25"), Neg: true, Sym: "$", Side: gmodel.SideLeft},
				Assert:  &gmodel.Assertion{Before: 1, After: 1, Amount: gmodel.Amount{Num: gmodel.Num("100", "100"), Sym: "$", Side: gmodel.SideLeft}},
				Comment: &gmodel.Comment{Text: " paid"}},
		}}}
	t["tx-unbalanced"] = gmodel.Entry{Kind: gmodel.EntryTx, Tx: &gmodel.Tx{
		Date: gmodel.Date{Y: 2001, M: 6, D: 7, Sep: "-", Pad: true}, Gap: 1, HeaderKind: gmodel.HeaderDesc, Desc: "off by one",
		Postings: []gmodel.Posting{
			{Indent: "    ", Account: "expenses:x", Sep: "  ", Amount: &gmodel.Amount{Num: gmodel.Num("5", "5"), Sym: "$", Side: gmodel.SideLeft}},
			{Indent: "    ", Account: "assets:y", Sep: "  ", Amount: &gmodel.Amount{Num: gmodel.Num("4", "4"), Neg: true, Sym: "$", Side: gmodel.SideLeft}},
		}}}
	// a transaction whose last line is an indented comment line (with a tag)
	t["tx-trailing-comment-line"] = gmodel.Entry{Kind: gmodel.EntryTx, Tx: &gmodel.Tx{
		Date: gmodel.Date{Y: 2001, M: 7, D: 8, Sep: "-", Pad: true}, Gap: 1, HeaderKind: gmodel.HeaderDesc, Desc: "with receipt",
		Postings: []gmodel.Posting{
			{Indent: "    ", Account: "expenses:x", Sep: "  ", Amount: &gmodel.Amount{Num: gmodel.Num("5", "5"), Sym: "$", Side: gmodel.SideLeft}},
			{Indent: "    ", Account: "assets:y", After: []gmodel.Comment{{Text: " receipt:r-1", Tags: []gmodel.Tag{{Name: "receipt", Value: "r-1"}}}}},
		}}}
	return t
}

// dumpValue renders any AST value with every position as (line+shift, column); offsets are omitted.
func dumpValue(v reflect.Value, shift int, b *strings.Builder) {
	switch v.Kind() {
	case reflect.Ptr, reflect.Interface:
		if v.IsNil() {
			b.WriteString("nil")
			return
		}
		dumpValue(v.Elem(), shift, b)
	case reflect.Struct:
		if p, ok := v.Interface().(ast.Position); ok {
			if p.Line == 0 && p.Column == 0 {
				b.WriteString("(0:0)")
			} else {
				fmt.Fprintf(b, "(%d:%d)", p.Line+shift, p.Column)
			}
			return
		}
		if d, ok := v.Interface().(decimal.Decimal); ok {
			b.WriteString(d.String())
			return
		}
		b.WriteString(v.Type().Name() + "{")
		for i := 0; i < v.NumField(); i++ {
			if i > 0 {
				b.WriteString(" ")
			}
			b.WriteString(v.Type().Field(i).Name + ":")
			dumpValue(v.Field(i), shift, b)
		}
		b.WriteString("}")
	case reflect.Slice:
		b.WriteString("[")
		for i := 0; i < v.Len(); i++ {
			if i > 0 {
				b.WriteString(" ")
			}
			dumpValue(v.Index(i), shift, b)
		}
		b.WriteString("]")
	case reflect.Map:
		var ks []string
		m := map[string]reflect.Value{}
		for _, k := range v.MapKeys() {
			ks = append(ks, fmt.Sprint(k.Interface()))
			m[fmt.Sprint(k.Interface())] = v.MapIndex(k)
		}
		sort.Strings(ks)
		b.WriteString("map[")
		for _, k := range ks {
			b.WriteString(k + ":")
			dumpValue(m[k], shift, b)
			b.WriteString(" ")
		}
		b.WriteString("]")
	case reflect.String:
		fmt.Fprintf(b, "%q", v.String())
	default:
		fmt.Fprint(b, v.Interface())
	}
}

type c07Item struct {
	Line int // 1-based start line
	Dump func(shift int) string
}

// the Range.End of a transaction / directive is the position of the following
// token, i.e. it lies outside the entry; it is compared separately (must not
// move except by the shift) only when the following entry is not the damaged one
func c07Items(j *ast.Journal) []c07Item {
	var out []c07Item
	add := func(line int, v any) {
		rv := reflect.ValueOf(v)
		out = append(out, c07Item{line, func(shift int) string {
			var b strings.Builder
			dumpValue(rv, shift, &b)
			return b.String()
		}})
	}
	for _, t := range j.Transactions {
		t := t
		t.Range.End = ast.Position{}
		if n := len(t.Postings); n > 0 {
			// the last posting's end is the start of the next line's token
			t.Postings = append([]ast.Posting(nil), t.Postings...)
		}
		add(t.Range.Start.Line, t)
	}
	for _, d := range j.Directives {
		switch x := d.(type) {
		case ast.AccountDirective:
			x.Range.End = ast.Position{}
			add(x.Range.Start.Line, x)
		case ast.CommodityDirective:
			x.Range.End = ast.Position{}
			add(x.Range.Start.Line, x)
		case ast.PriceDirective:
			add(x.Range.Start.Line, x)
		case ast.YearDirective:
			add(x.Range.Start.Line, x)
		case ast.DefaultCommodityDirective:
			add(x.Range.Start.Line, x)
		default:
			add(d.GetRange().Start.Line, d)
		}
	}
	for _, inc := range j.Includes {
		add(inc.Range.Start.Line, inc)
	}
	for _, c := range j.Comments {
		add(c.Range.Start.Line, c)
	}
	sort.SliceStable(out, func(a, b int) bool { return out[a].Line < out[b].Line })
	return out
}

type c07Damage struct {
	Kind string `json:"kind"`
	Line int    `json:"line"` // line within the entry
	Col  int    `json:"col"`
	Arg  string `json:"arg,omitempty"`
}

func (d c07Damage) class() string {
	switch d.Kind {
	case "insert", "replace":
		return d.Kind + " " + fmt.Sprintf("%q", d.Arg)
	}
	return d.Kind
}

// applyDamage returns the damaged lines of the entry.
func applyDamage(lines []string, d c07Damage) []string {
	out := append([]string(nil), lines...)
	switch d.Kind {
	case "truncate":
		out[d.Line] = out[d.Line][:d.Col]
	case "insert":
		out[d.Line] = out[d.Line][:d.Col] + d.Arg + out[d.Line][d.Col:]
	case "replace":
		out[d.Line] = out[d.Line][:d.Col] + d.Arg + out[d.Line][d.Col+1:]
	case "delete-line":
		out = append(out[:d.Line], out[d.Line+1:]...)
	case "duplicate-line":
		out = append(out[:d.Line+1], out[d.Line:]...)
	case "swap-lines":
		out[d.Line], out[d.Line+1] = out[d.Line+1], out[d.Line]
	}
	return out
}

var c07Inserts = []string{"(", ")", "[", "]", "\"", "@", "=", ";", "|", "*", "-", "0", ":", "\t"}
var c07ReplaceQuick = []string{"a", "0", " ", ";", "\"", "(", "\xc3", "🍕"}
var c07ReplaceAll = []string{"a", "e", "Z", "E", "0", "9", " ", "\t", ";", ":", "|", "(", ")", "[", "]", "@", "=", "*", "!", "\"", "-", "+", ",", ".", "/", "$", "#", "_", "\xc3", "é", "₽", "🍕"}

func c07Damages(lines []string, thorough bool) []c07Damage {
	var out []c07Damage
	repl := c07ReplaceQuick
	if thorough {
		repl = c07ReplaceAll
	}
	for li, l := range lines {
		for col := 0; col <= len(l); col++ {
			if col < len(l) && !isRuneStart(l, col) {
				continue
			}
			if col < len(l) {
				out = append(out, c07Damage{Kind: "truncate", Line: li, Col: col})
			}
			for _, ins := range c07Inserts {
				out = append(out, c07Damage{Kind: "insert", Line: li, Col: col, Arg: ins})
			}
			if col < len(l) && l[col] < 0x80 {
				for _, r := range repl {
					if r != string(l[col]) {
						out = append(out, c07Damage{Kind: "replace", Line: li, Col: col, Arg: r})
					}
				}
			}
		}
		if len(lines) > 1 || true {
			out = append(out, c07Damage{Kind: "delete-line", Line: li})
		}
		out = append(out, c07Damage{Kind: "duplicate-line", Line: li})
		if li+1 < len(lines) {
			out = append(out, c07Damage{Kind: "swap-lines", Line: li})
		}
	}
	return out
}

func isRuneStart(s string, i int) bool { return s[i]&0xC0 != 0x80 }

type c07Case struct {
	Blank   int       `json:"blank_lines"`
	Entries []string  `json:"entries"`
	Damaged int       `json:"damaged_entry"`
	Damage  c07Damage `json:"damage"`
	CRLF    bool      `json:"crlf"`
	Text    string    `json:"text"`
	Orig    string    `json:"original"`
}

func c07Diags(s *wire.Session, text string) []Diag {
	uri := "file:///c07/doc.journal"
	s.DidOpen(uri, text)
	raw := s.Client.Last(uri)
	s.DidClose(uri)
	return parseDiags(raw)
}

func checkC07(c *core.Ctx) {
	tpl := c07Templates()
	var names []string
	for k := range tpl {
		names = append(names, k)
	}
	sort.Strings(names)
	neighbours := []string{"tx", "account", "commodity-fmt", "tx-unbalanced", "tx-trailing-comment-line", "tx-rich"}
	if c.Thorough() {
		neighbours = names
	}
	s := wire.New()
	s.Initialize(wire.InitOpts{Options: `{"diagnostics":{"undeclaredAccounts":false,"undeclaredCommodities":false}}`})

	blank := 1
	le := "\n"
	run := func(kinds []string, e int, only *c07Damage) {
		j := &gmodel.Journal{LineEnd: le, FinalNewline: true, Blank: blank}
		for _, k := range kinds {
			j.Entries = append(j.Entries, tpl[k])
		}
		rd := j.Render()
		ent := rd.Find("entry", -2, -2)
		origAST, origErrs := parser.Parse(rd.Text)
		if len(origErrs) > 0 {
			c.Violate("undamaged journal has syntax errors|"+strings.Join(kinds, ","), "supported journals parse silently (C03)", fmt.Sprint(origErrs)+"\n"+rd.Text, c07Case{Entries: kinds, Text: rd.Text})
			return
		}
		origItems := c07Items(origAST)
		origDiags := c07Diags(s, rd.Text)
		first, last := ent[e].Line, ent[e].EndLine
		entryLines := rd.Lines[first : last+1]
		damages := c07Damages(entryLines, c.Thorough())
		if only != nil {
			damages = []c07Damage{*only}
		}
		for _, d := range damages {
			if only == nil && !c.Mine() {
				continue
			}
			dl := applyDamage(entryLines, d)
			if blank == 0 && (len(dl) == 0 || dl[0] == "" || dl[0][0] == ' ' || dl[0][0] == '\t') {
				// without a separating blank line an indented (or vanished) first
				// line is, by the grammar, a continuation of the entry above: the
				// damage is then not "inside one entry"
				c.Count("damages skipped: first line becomes a continuation line (0 blank lines)", 1)
				continue
			}
			shift := len(dl) - len(entryLines)
			all := append([]string{}, rd.Lines[:first]...)
			all = append(all, dl...)
			all = append(all, rd.Lines[last+1:]...)
			text := strings.Join(all, le) + le
			damAST, damErrs := parser.Parse(text)
			c.Res.Evaluations++
			if len(damErrs) > 0 {
				c.Res.Nontrivial++
			}
			cas := c07Case{Blank: blank, Entries: kinds, Damaged: e, Damage: d, CRLF: le != "\n", Text: text, Orig: rd.Text}
			pos := []string{"first", "middle", "last"}[e]
			viol := func(clause, class string, detail string) {
				c.Violate(fmt.Sprintf("%s|%s|damaged %s entry (%s) by %s, %d blank lines between entries%s", clause, class, pos, kinds[e], d.class(), blank, map[bool]string{false: "", true: ", CRLF"}[le != "\n"]), clause, detail+"\n--- damaged text:\n"+text, cas)
			}
			dFirst, dLast := first+1, first+len(dl) // 1-based lines of the damaged entry (may be empty)
			// (a) syntax errors only on lines of the damaged entry
			for _, pe := range damErrs {
				if pe.Pos.Line < dFirst || pe.Pos.Line > dLast {
					if len(dl) == 0 && pe.Pos.Line == dFirst {
						continue
					}
					viol("syntax errors appear only on lines of the damaged entry", "error on another entry's line", fmt.Sprintf("error %q at line %d, damaged entry occupies lines %d..%d", pe.Message, pe.Pos.Line, dFirst, dLast))
					break
				}
			}
			// (b) every other entry recognised with the same content at shifted positions
			if damAST == nil {
				viol("other entries are still recognised", "nil journal", "")
				continue
			}
			damItems := c07Items(damAST)
			for k := range kinds {
				if k == e {
					continue
				}
				sh := 0
				if k > e {
					sh = shift
				}
				var want, got []string
				for _, it := range origItems {
					if it.Line-1 >= ent[k].Line && it.Line-1 <= ent[k].EndLine {
						want = append(want, it.Dump(sh))
					}
				}
				for _, it := range damItems {
					if it.Line-1 >= ent[k].Line+sh && it.Line-1 <= ent[k].EndLine+sh {
						got = append(got, it.Dump(0))
					}
				}
				if strings.Join(want, "\n") != strings.Join(got, "\n") {
					class := "content changed"
					if len(got) < len(want) {
						class = "entry lost"
					} else if len(got) > len(want) {
						class = "extra item"
					}
					rel := "above"
					if k > e {
						rel = "below"
					}
					viol("other entries keep their content and (shifted) positions", class+" ("+kinds[k]+" "+rel+")", fmt.Sprintf("entry %d (%s)\nwas: %s\nnow: %s", k, kinds[k], strings.Join(want, "\n"), strings.Join(got, "\n")))
				}
			}
			// (c) published diagnostics: other entries keep exactly their own; code-less ones only on the damaged entry
			damDiags := c07Diags(s, text)
			line := func(d Diag) int { return d.StartLine + 1 }
			isLoad := func(d Diag) bool {
				return strings.Contains(d.Message, "cannot read") || strings.Contains(d.Message, "no files match") || strings.Contains(d.Message, "cycle detected") || strings.Contains(d.Message, "path traversal")
			}
			for _, dg := range damDiags {
				if dg.Code == "" && !isLoad(dg) && (line(dg) < dFirst || line(dg) > dLast) && !(len(dl) == 0 && line(dg) == dFirst) {
					viol("published syntax-error diagnostics lie on the damaged entry", "diagnostic on another entry's line", fmt.Sprintf("%q at line %d, damaged entry lines %d..%d", dg.Message, line(dg), dFirst, dLast))
					break
				}
			}
			for k := range kinds {
				if k == e {
					continue
				}
				sh := 0
				if k > e {
					sh = shift
				}
				var want, got []string
				for _, dg := range origDiags {
					if dg.StartLine >= ent[k].Line && dg.StartLine <= ent[k].EndLine {
						want = append(want, fmt.Sprintf("%s|%s|%d:%d", dg.Code, dg.Message, dg.StartLine+sh, dg.StartChar))
					}
				}
				for _, dg := range damDiags {
					if dg.StartLine >= ent[k].Line+sh && dg.StartLine <= ent[k].EndLine+sh {
						got = append(got, fmt.Sprintf("%s|%s|%d:%d", dg.Code, dg.Message, dg.StartLine, dg.StartChar))
					}
				}
				sort.Strings(want)
				sort.Strings(got)
				if strings.Join(want, "\n") != strings.Join(got, "\n") {
					viol("other entries keep exactly their own diagnostics", "diagnostics of "+kinds[k]+" changed", fmt.Sprintf("was %v now %v", want, got))
				}
			}
		}
	}
	if c.Replay != nil {
		var cs c07Case
		if err := jsonUnmarshal(c.Replay, &cs); err != nil {
			c.Res.InfraError = "bad replay: " + err.Error()
			return
		}
		blank = cs.Blank
		if cs.CRLF {
			le = "\r\n"
		}
		run(cs.Entries, cs.Damaged, &cs.Damage)
		return
	}
	njournals := 0
	for _, le = range []string{"\n", "\r\n"} {
		for _, blank = range []int{1, 0} {
			for _, dk := range names {
				for _, a := range neighbours {
					for _, b := range neighbours {
						run([]string{a, dk, b}, 1, nil)
						njournals++
					}
					if c.Expired() {
						return
					}
					run([]string{dk, a, "tx-balanced"}, 0, nil)
					run([]string{"tx-balanced", a, dk}, 2, nil)
					njournals += 2
				}
			}
		}
	}
	c.Bound("line endings", "LF and CRLF")
	c.Bound("journals", fmt.Sprintf("%d (journal, damaged entry) pairs: %d entry templates damaged, neighbours from %d templates", njournals, len(names), len(neighbours)))
	c.Sample(map[string]any{"entries": []string{"tx", "commodity-fmt", "account"}, "damage": c07Damage{Kind: "insert", Line: 1, Col: 11, Arg: "\""}})
}
