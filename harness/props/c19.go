package props

import (
	"encoding/json"
	"fmt"
	"math"
	"os"
	"path/filepath"
	"sort"
	"strconv"
	"strings"

	"github.com/juev/hledger-lsp/internal/verifx/bfs"
	"github.com/juev/hledger-lsp/internal/verifx/core"
	"github.com/juev/hledger-lsp/internal/verifx/wire"
)

func init() { core.Register("C19", checkC19) }

type c19Key struct {
	Section, Name string
	Type          string // bool int posint nonnegint string
	Default       any
}

func (k c19Key) path() string { return k.Section + "." + k.Name }

// the documented settings (docs/configuration.md) plus the alias limits.maxFileSize
var c19Keys = []c19Key{
	{"features", "hover", "bool", true}, {"features", "completion", "bool", true}, {"features", "formatting", "bool", true},
	{"features", "diagnostics", "bool", true}, {"features", "semanticTokens", "bool", true}, {"features", "codeActions", "bool", true},
	{"features", "foldingRanges", "bool", true}, {"features", "documentLinks", "bool", true}, {"features", "workspaceSymbol", "bool", true},
	{"features", "inlineCompletion", "bool", true},
	{"completion", "maxResults", "posint", int64(50)}, {"completion", "fuzzyMatching", "bool", true}, {"completion", "showCounts", "bool", true},
	{"diagnostics", "undeclaredAccounts", "bool", true}, {"diagnostics", "undeclaredCommodities", "bool", true}, {"diagnostics", "unbalancedTransactions", "bool", true},
	{"formatting", "indentSize", "posint", int64(4)}, {"formatting", "alignAmounts", "bool", true}, {"formatting", "minAlignmentColumn", "nonnegint", int64(0)},
	{"cli", "enabled", "bool", true}, {"cli", "path", "string", "hledger"}, {"cli", "timeout", "posint", int64(30000)},
	{"limits", "maxFileSizeBytes", "posint", int64(10485760)}, {"limits", "maxIncludeDepth", "posint", int64(50)},
	{"limits", "maxFileSize", "posint", int64(10485760)}, // alias of maxFileSizeBytes
}

var c19Values = []string{`null`, `true`, `false`, `0`, `1`, `2`, `7`, `-1`, `2.0`, `1e99`, `""`, `"3"`, `" 4 "`, `"true"`, `"FALSE"`, `"x"`, `[]`, `[1]`, `{}`, `{"a":1}`}

type c19Settings map[string]any

func c19Defaults() c19Settings {
	s := c19Settings{}
	for _, k := range c19Keys {
		if k.Name == "maxFileSize" {
			continue
		}
		s[k.path()] = k.Default
	}
	return s
}

func (s c19Settings) clone() c19Settings {
	o := c19Settings{}
	for k, v := range s {
		o[k] = v
	}
	return o
}

func (s c19Settings) String() string {
	var ks []string
	for k := range s {
		ks = append(ks, k)
	}
	sort.Strings(ks)
	var b strings.Builder
	for _, k := range ks {
		fmt.Fprintf(&b, "%s=%v ", k, s[k])
	}
	return b.String()
}

// refVerdict of a value for a key: "set" with the value, "keep" (leave the
// previous value), or "legal" (numeric but not well-typed: any legal result)
func c19Verdict(k c19Key, v any) (string, any) {
	switch k.Type {
	case "bool":
		switch x := v.(type) {
		case bool:
			return "set", x
		case string:
			switch strings.ToLower(x) {
			case "true":
				return "set", true
			case "false":
				return "set", false
			}
			if t := strings.ToLower(strings.TrimSpace(x)); t == "true" || t == "false" {
				return "legal", nil
			}
		}
		return "keep", nil
	case "string":
		if x, ok := v.(string); ok {
			if x == "" {
				return "set", k.Default
			}
			return "set", x
		}
		return "keep", nil
	default: // integers
		norm := func(n int64) any {
			switch k.Type {
			case "posint":
				if n <= 0 {
					return k.Default
				}
			case "nonnegint":
				if n < 0 {
					return int64(0)
				}
			}
			return n
		}
		switch x := v.(type) {
		case float64:
			if x == math.Trunc(x) && math.Abs(x) <= math.MaxInt32 {
				return "set", norm(int64(x))
			}
			return "legal", nil
		case string:
			if n, err := strconv.ParseInt(x, 10, 32); err == nil {
				return "set", norm(n)
			}
			if _, err := strconv.ParseInt(strings.TrimSpace(x), 10, 32); err == nil {
				return "legal", nil
			}
		}
		return "keep", nil
	}
}

// c19Apply is the reference settings model: applies a decoded payload.
// legal collects the keys whose result is only required to be legal.
func c19Apply(s c19Settings, payload any, legal map[string]bool) c19Settings {
	m, ok := payload.(map[string]any)
	if !ok {
		return s
	}
	if nested, ok := m["hledger"]; ok {
		return c19Apply(s, nested, legal)
	}
	out := s.clone()
	set := func(k c19Key, v any) {
		target := k.path()
		if k.Name == "maxFileSize" {
			target = "limits.maxFileSizeBytes"
		}
		verdict, val := c19Verdict(k, v)
		switch verdict {
		case "set":
			out[target] = val
			delete(legal, target)
		case "legal":
			legal[target] = true
		}
	}
	for _, k := range c19Keys {
		if sec, ok := m[k.Section].(map[string]any); ok {
			if v, ok := sec[k.Name]; ok {
				set(k, v)
			}
		}
	}
	for _, k := range c19Keys {
		if v, ok := m[k.Section+"."+k.Name]; ok {
			set(k, v)
		}
	}
	return out
}

func c19Wrap(k c19Key, value, form string) string {
	inner := ""
	switch form {
	case "nested", "wrapped-nested", "wrapped-twice":
		inner = fmt.Sprintf(`{%q:{%q:%s}}`, k.Section, k.Name, value)
	default:
		inner = fmt.Sprintf(`{%q:%s}`, k.Section+"."+k.Name, value)
	}
	switch form {
	case "wrapped-nested", "wrapped-dotted":
		return `{"hledger":` + inner + `}`
	case "wrapped-twice":
		return `{"hledger":{"hledger":` + inner + `}}`
	}
	return inner
}

var c19Forms = []string{"nested", "dotted", "wrapped-nested", "wrapped-dotted", "wrapped-twice"}

type c19Event struct {
	Channel string `json:"channel"` // initialize pull push
	Payload string `json:"payload"`
}

type c19Case struct {
	Events []c19Event `json:"events"`
	Probe  bool       `json:"behaviour_probe"`
	// Warm: the probe document (with its included file) was opened, analysed and
	// closed once before the configuration events (caches are filled under the
	// earlier settings)
	Warm bool `json:"document_analysed_before_the_events"`
}

// observed effective settings, normalised to the reference representation
func c19Observed(s *wire.Session) c19Settings {
	o := c19Settings{}
	for k, v := range s.Srv.VerifxSettingsMap() {
		switch x := v.(type) {
		case int:
			o[k] = int64(x)
		case int64:
			o[k] = x
		default:
			o[k] = v
		}
	}
	if n, ok := o["formatting.minAlignmentColumn"].(int64); ok && n < 0 {
		o["formatting.minAlignmentColumn"] = int64(0)
	}
	return o
}

// c19Run applies the events on a fresh server and compares with the reference.
func c19Run(c *core.Ctx, dir string, cs c19Case) (key string) {
	s := wire.New()
	ref := c19Defaults()
	legal := map[string]bool{}
	pull := false
	for _, e := range cs.Events {
		if e.Channel == "pull" {
			pull = true
		}
	}
	initOpts := ""
	events := cs.Events
	if len(events) > 0 && events[0].Channel == "initialize" {
		initOpts = events[0].Payload
		events = events[1:]
		var v any
		_ = json.Unmarshal([]byte(initOpts), &v)
		ref = c19Apply(ref, v, legal)
	}
	fail := func(what string, r wire.Reply) bool {
		if r.OK() {
			return false
		}
		c.Violate("event fails|"+what+"|"+firstLine(r.Err+r.Panic), "any configuration payload is accepted without failure", fmt.Sprintf("events %s\n%s %s", core.J(cs.Events), r.Err, r.Panic), cs)
		return true
	}
	root := ""
	if cs.Probe {
		root = dir
	}
	r := s.Initialize(wire.InitOpts{Root: root, Options: initOpts, Configuration: pull})
	if fail("initialize", r) {
		return ""
	}
	caps := r.Result
	fail("initialized", s.Initialized())
	if cs.Probe && cs.Warm {
		wu := wire.URI(filepath.Join(dir, "probe.journal"))
		s.DidOpen(wu, c19ProbeText())
		s.Call("textDocument/completion", wire.DocPos(wu, 3, 0))
		s.DidClose(wu)
	}
	for _, e := range events {
		var v any
		_ = json.Unmarshal([]byte(e.Payload), &v)
		switch e.Channel {
		case "pull":
			s.Client.SetConfig(e.Payload)
			if fail("didChangeConfiguration", s.Notify("workspace/didChangeConfiguration", `{"settings":null}`)) {
				return ""
			}
		case "push":
			if fail("didChangeConfiguration", s.Notify("workspace/didChangeConfiguration", `{"settings":`+e.Payload+`}`)) {
				return ""
			}
		}
		ref = c19Apply(ref, v, legal)
	}
	c.Res.Evaluations++
	obs := c19Observed(s)
	channel := "initialize"
	if len(cs.Events) > 0 {
		channel = cs.Events[len(cs.Events)-1].Channel
	}
	for _, k := range c19Keys {
		if k.Name == "maxFileSize" {
			continue
		}
		p := k.path()
		want, got := ref[p], obs[p]
		if legal[p] {
			// only legality: booleans are booleans, positive settings positive
			switch k.Type {
			case "posint":
				if n, ok := got.(int64); !ok || n <= 0 {
					c.Violate("effective setting is not legal|"+p+"|"+channel, "the result is a legal setting", fmt.Sprintf("events %s\n%s = %v", core.J(cs.Events), p, got), cs)
				}
			}
			continue
		}
		if fmt.Sprint(want) != fmt.Sprint(got) {
			class := "value not applied"
			if fmt.Sprint(got) != fmt.Sprint(k.Default) && len(cs.Events) == 1 {
				class = "wrong value applied"
			}
			if fmt.Sprint(want) == fmt.Sprint(k.Default) && len(cs.Events) == 1 {
				class = "ill-typed or non-positive value took effect"
			}
			c.Violate(fmt.Sprintf("effective settings|%s (%s)|%s|via %s", k.Type, class, c19PayloadClass(cs.Events), channel), "recognised well-typed values take effect, others leave the previous value",
				fmt.Sprintf("events %s\n%s: expected %v, effective %v", core.J(cs.Events), p, want, got), cs)
		}
	}
	if cs.Probe {
		c19Probe(c, s, dir, ref, legal, caps, initOpts != "", cs)
	}
	return obs.String()
}

func c19PayloadClass(evs []c19Event) string {
	if len(evs) != 1 {
		return fmt.Sprintf("%d events", len(evs))
	}
	p := evs[0].Payload
	switch {
	case strings.HasPrefix(p, `{"hledger":{"hledger":`):
		return "hledger wrapper twice"
	case strings.HasPrefix(p, `{"hledger":`):
		return "hledger wrapper"
	}
	return "bare section"
}

func c19ProbeText() string {
	var doc strings.Builder
	doc.WriteString("include big.journal\n\naccount expenses:declared\ncommodity 1.000,00 EUR\n\n")
	for i := 0; i < 8; i++ {
		fmt.Fprintf(&doc, "2001-01-%02d payee%d\n    expenses:food%d  1 EUR\n    assets:a-much-longer-account-name%d  -1 EUR\n\n", i+1, i, i, i)
	}
	doc.WriteString("2001-02-01 unbalanced\n    expenses:declared  1 USD\n    zzz:undeclared  -2 USD\n\n2001-03-01 typing\n    \n")
	return doc.String()
}

// c19Probe checks that the settings are effective through behaviour.
func c19Probe(c *core.Ctx, s *wire.Session, dir string, ref c19Settings, legal map[string]bool, caps string, atInit bool, cs c19Case) {
	viol := func(what, detail string) {
		if cs.Warm {
			what += " (document analysed before the events)"
		}
		c.Violate("behaviour|"+what, "recognised values take effect on subsequent behaviour", fmt.Sprintf("events %s\n%s\nexpected settings %s", core.J(cs.Events), detail, ref), cs)
	}
	b := func(k string) bool { v, _ := ref[k].(bool); return v }
	n := func(k string) int { v, _ := ref[k].(int64); return int(v) }
	uri := wire.URI(filepath.Join(dir, "probe.journal"))
	text := c19ProbeText()
	s.DidOpen(uri, text)
	lines := strings.Split(text, "\n")
	typing := len(lines) - 2
	// completion: limit and matching mode
	if !legal["completion.maxResults"] {
		r := s.Call("textDocument/completion", wire.DocPos(uri, typing, 4))
		var v struct{ Items []struct{ Label string } }
		_ = json.Unmarshal([]byte(r.Result), &v)
		want := n("completion.maxResults")
		total := 18 // distinct accounts in the probe document
		if want > total {
			want = total
		}
		if len(v.Items) != want {
			viol("completion limit", fmt.Sprintf("completion returned %d items, maxResults %d (of %d names)", len(v.Items), n("completion.maxResults"), total))
		}
	}
	{
		fz := text[:len(text)-1] + "efd0\n" // subsequence of expenses:food0, not a prefix
		s.DidChangeFull(uri, fz, 2)
		r := s.Call("textDocument/completion", wire.DocPos(uri, typing, 8))
		var v struct{ Items []struct{ Label string } }
		_ = json.Unmarshal([]byte(r.Result), &v)
		found := false
		for _, it := range v.Items {
			if it.Label == "expenses:food0" {
				found = true
			}
		}
		if found != b("completion.fuzzyMatching") {
			viol("completion matching mode", fmt.Sprintf("fuzzy fragment matched=%v, fuzzyMatching=%v", found, b("completion.fuzzyMatching")))
		}
		s.DidChangeFull(uri, text, 3)
	}
	// formatting: indent, alignment, minimum column
	if !legal["formatting.indentSize"] && !legal["formatting.minAlignmentColumn"] {
		r := s.Call("textDocument/formatting", `{"textDocument":{"uri":`+wire.Q(uri)+`},"options":{"tabSize":4,"insertSpaces":true}}`)
		var edits []struct {
			Range   lspRange `json:"range"`
			NewText string   `json:"newText"`
		}
		_ = json.Unmarshal([]byte(r.Result), &edits)
		cols := map[int]bool{}
		indentOK := true
		for _, e := range edits {
			t := e.NewText
			if strings.TrimSpace(t) == "" || e.Range.Start.Char != 0 {
				continue
			}
			ind := len(t) - len(strings.TrimLeft(t, " "))
			if ind != n("formatting.indentSize") {
				indentOK = false
			}
			if i := strings.Index(t, " EUR"); i > 0 {
				// amount column: start of the number
				j := strings.LastIndex(t[:i], " ") + 1
				cols[j] = true
			}
		}
		if !indentOK {
			viol("formatting indent", fmt.Sprintf("posting lines are not indented by %d", n("formatting.indentSize")))
		}
		if len(edits) > 0 {
			aligned := len(cols) == 1
			if aligned != b("formatting.alignAmounts") {
				viol("formatting alignment", fmt.Sprintf("amount columns %v, alignAmounts=%v", cols, b("formatting.alignAmounts")))
			}
			if b("formatting.alignAmounts") {
				for col := range cols {
					if col < n("formatting.minAlignmentColumn") {
						viol("formatting minimum column", fmt.Sprintf("amount column %d below minimum %d", col, n("formatting.minAlignmentColumn")))
					}
				}
			}
		}
	}
	// diagnostics switches remove exactly their codes
	codes := map[string]bool{}
	depthErr, sizeErr := false, false
	for _, d := range parseDiags(s.Client.Last(uri)) {
		if d.Code != "" {
			codes[d.Code] = true
		}
		if strings.Contains(d.Message, "depth limit") {
			depthErr = true
		}
		if strings.Contains(d.Message, "too large") {
			sizeErr = true
		}
	}
	diagOn := b("features.diagnostics")
	for code, key := range map[string]string{"UNDECLARED_ACCOUNT": "diagnostics.undeclaredAccounts", "UNDECLARED_COMMODITY": "diagnostics.undeclaredCommodities", "UNBALANCED": "diagnostics.unbalancedTransactions"} {
		if codes[code] != (diagOn && b(key)) {
			viol("diagnostics switch "+key, fmt.Sprintf("code %s present=%v, %s=%v, features.diagnostics=%v", code, codes[code], key, b(key), diagOn))
		}
	}
	// include limits
	if diagOn && !legal["limits.maxIncludeDepth"] && !legal["limits.maxFileSizeBytes"] {
		wantDepth := n("limits.maxIncludeDepth") <= 1
		wantSize := n("limits.maxFileSizeBytes") < 2000 && !wantDepth
		if sizeErr != wantSize {
			viol("include size limit", fmt.Sprintf("'too large' verdict=%v with maxFileSizeBytes=%d (included file has 2000+ bytes)", sizeErr, n("limits.maxFileSizeBytes")))
		}
		if depthErr != wantDepth {
			viol("include depth limit", fmt.Sprintf("depth verdict=%v with maxIncludeDepth=%d", depthErr, n("limits.maxIncludeDepth")))
		}
	}
	// feature switches at initialize remove exactly their capability
	if atInit {
		for feat, capName := range map[string]string{"hover": "hoverProvider", "completion": "completionProvider", "formatting": "documentFormattingProvider", "semanticTokens": "semanticTokensProvider",
			"foldingRanges": "foldingRangeProvider", "documentLinks": "documentLinkProvider", "workspaceSymbol": "workspaceSymbolProvider", "codeActions": "codeActionProvider", "inlineCompletion": "inlineCompletionProvider"} {
			has := strings.Contains(caps, `"`+capName+`"`)
			if has != b("features."+feat) {
				viol("capability "+capName, fmt.Sprintf("capability advertised=%v, features.%s=%v", has, feat, b("features."+feat)))
			}
		}
	}
	s.DidClose(uri)
}

func checkC19(c *core.Ctx) {
	dir := filepath.Join(c.Scratch, "c19")
	_ = os.MkdirAll(dir, 0o755)
	_ = os.WriteFile(filepath.Join(dir, "big.journal"), []byte("; "+strings.Repeat("x", 2000)+"\n2001-05-01 big\n    expenses:food0  1 EUR\n    assets:a-much-longer-account-name0  -1 EUR\n"), 0o644)
	_ = os.WriteFile(filepath.Join(dir, "main.journal"), []byte("include probe.journal\n"), 0o644)
	_ = os.WriteFile(filepath.Join(dir, "probe.journal"), []byte(""), 0o644)
	if c.Replay != nil {
		var cs c19Case
		if err := jsonUnmarshal(c.Replay, &cs); err != nil {
			c.Res.InfraError = "bad replay: " + err.Error()
			return
		}
		c19Run(c, dir, cs)
		return
	}
	channels := []string{"initialize", "pull", "push"}
	c.Bound("payload shapes", fmt.Sprintf("%d keys x %d values x %d forms x 3 channels (initializationOptions, didChangeConfiguration with pull, didChangeConfiguration with pushed settings)", len(c19Keys), len(c19Values), len(c19Forms)))
	sampled := 0
	for _, k := range c19Keys {
		for _, v := range c19Values {
			for _, form := range c19Forms {
				for _, ch := range channels {
					if !c.Mine() {
						continue
					}
					payload := c19Wrap(k, v, form)
					probe := form == "nested" && (k.Section != "cli")
					c19Run(c, dir, c19Case{Events: []c19Event{{ch, payload}}, Probe: probe})
					var dv any
					_ = json.Unmarshal([]byte(v), &dv)
					if verdict, _ := c19Verdict(k, dv); verdict != "set" || form != "nested" {
						c.Res.Nontrivial++
					}
					if sampled < 3 && form == "wrapped-dotted" && v == `"FALSE"` {
						sampled++
						c.Sample(map[string]any{"channel": ch, "payload": payload})
					}
				}
			}
		}
		if c.Expired() {
			return
		}
	}
	// whole-payload shapes
	for _, p := range []string{`null`, `5`, `"s"`, `[]`, `{}`, `{"hledger":null}`, `{"hledger":5}`, `{"unknown":{"features":{"hover":false}}}`, `{"features":5}`, `{"features":[false]}`, `{"completion":null,"formatting":"x"}`} {
		for _, ch := range channels {
			if c.Mine() {
				c19Run(c, dir, c19Case{Events: []c19Event{{ch, p}}, Probe: true})
				c.Res.Nontrivial++
			}
		}
	}
	// pairs of keys from different sections, two values each
	pairVals := map[string][]string{"bool": {`false`, `"x"`}, "posint": {`7`, `-1`, `"-1"`}, "nonnegint": {`7`, `"x"`}, "string": {`"/bin/x"`, `5`}}
	for i, a := range c19Keys {
		for _, b := range c19Keys[i+1:] {
			if a.Section == b.Section {
				continue
			}
			for _, va := range pairVals[a.Type] {
				for _, vb := range pairVals[b.Type] {
					if !c.Mine() {
						continue
					}
					payload := fmt.Sprintf(`{%q:{%q:%s},%q:{%q:%s}}`, a.Section, a.Name, va, b.Section, b.Name, vb)
					c19Run(c, dir, c19Case{Events: []c19Event{{"initialize", payload}}, Probe: false})
					c19Run(c, dir, c19Case{Events: []c19Event{{"pull", payload}}, Probe: false})
					c.Res.Nontrivial += 2
				}
			}
		}
	}
	// one setting spelt both ways in the same payload (nested object and dotted
	// key): the nested form is applied first, a well-typed dotted value overrides it
	bothVals := map[string][]string{"bool": {`false`, `true`, `"x"`, `null`}, "posint": {`7`, `9`, `-1`, `"x"`, `null`}, "nonnegint": {`7`, `9`, `"x"`, `null`}, "string": {`"/bin/x"`, `"/bin/y"`, `5`, `null`}}
	c.Bound("both spellings", "every key x 4-5 values in the nested form x 4-5 values in the dotted form in one payload, bare and inside the hledger wrapper, at initialisation and on pull")
	for _, k := range c19Keys {
		for _, vn := range bothVals[k.Type] {
			for _, vd := range bothVals[k.Type] {
				if !c.Mine() {
					continue
				}
				payload := fmt.Sprintf(`{%q:{%q:%s},%q:%s}`, k.Section, k.Name, vn, k.Section+"."+k.Name, vd)
				for _, pl := range []string{payload, `{"hledger":` + payload + `}`} {
					c19Run(c, dir, c19Case{Events: []c19Event{{"initialize", pl}}, Probe: false})
					c19Run(c, dir, c19Case{Events: []c19Event{{"pull", pl}}, Probe: false})
					c.Res.Nontrivial += 2
				}
			}
		}
	}
	// sequences: BFS over configuration events from a 10-payload menu
	menu := []c19Event{
		{"pull", `{"completion":{"maxResults":3}}`},
		{"pull", `{"formatting":{"indentSize":2,"alignAmounts":false}}`},
		{"pull", `{"diagnostics":{"undeclaredAccounts":false}}`},
		{"pull", `{"completion":{"maxResults":"x","fuzzyMatching":1}}`},
		{"pull", `{"completion":{"maxResults":-5},"formatting":{"indentSize":0}}`},
		{"pull", `{}`},
		{"pull", `{"hledger":{"limits":{"maxIncludeDepth":1}}}`},
		{"pull", `{"features":{"diagnostics":false}}`},
		{"pull", `{"completion.fuzzyMatching":"false","formatting.minAlignmentColumn":40}`},
		{"pull", `{"limits":{"maxFileSize":1000},"features":{"diagnostics":"TRUE"}}`},
		// numbers written as strings, negative and zero: back to the default, whatever was set before
		{"pull", `{"completion":{"maxResults":"-1"},"formatting":{"indentSize":"-2","minAlignmentColumn":"-3"}}`},
		{"pull", `{"completion":{"maxResults":"0"},"limits":{"maxIncludeDepth":"0"}}`},
		// the same in the dotted key form, bare and inside the hledger wrapper
		{"pull", `{"formatting.indentSize":0,"completion.maxResults":-3,"limits.maxIncludeDepth":0}`},
		{"pull", `{"hledger":{"formatting.indentSize":"-3","completion.maxResults":"0"}}`},
	}
	depth := 3
	if c.Thorough() {
		depth = 4
	}
	c.Bound("sequences", fmt.Sprintf("BFS over <= %d configuration events from a %d-payload menu, behaviour probed after every event, each sequence also with the probe document analysed once before the events", depth, len(menu)))
	st := bfs.Search(len(menu), depth, 100000, "init", func(path []int) (string, bool) {
		if c.NShards > 1 && path[0]%c.NShards != c.Shard {
			return "", false
		}
		cs := c19Case{Probe: true}
		for _, p := range path {
			cs.Events = append(cs.Events, menu[p])
		}
		if len(path) > 1 {
			c.Res.Nontrivial++
		}
		key := c19Run(c, dir, cs)
		// the same sequence from a non-initial state: caches filled before the events
		warm := cs
		warm.Warm = true
		c19Run(c, dir, warm)
		return key, true
	}, c.Expired)
	c.Res.States += st.States
	c.Res.Transitions += st.Transitions
	c.Res.Traces += st.Transitions
}
