package props

import (
	"encoding/json"
	"fmt"
	"os"
	"path/filepath"
	"sort"
	"strings"

	"github.com/juev/hledger-lsp/internal/server"
	"github.com/juev/hledger-lsp/internal/verifx/bfs"
	"github.com/juev/hledger-lsp/internal/verifx/core"
	"github.com/juev/hledger-lsp/internal/verifx/wire"
)

// Part C: membership histories. The root journal M always includes Q and, in
// one of its two versions, X; X has two versions with other accounts and
// declarations. M and X are opened (with the saved or with the other text),
// changed, saved and closed in every order; afterwards Q and M are asked. The
// answers must equal those of a fresh server brought into the same final state
// (same files, same open documents and editor texts), and the names offered in
// Q must be those of the files that belong to the tree according to the
// current texts (a small model, so that the reference itself is checked).

type c11MemCase struct {
	Part string   `json:"part"` // "membership"
	Root bool     `json:"workspace_root"`
	Ops  []string `json:"ops"`
}

func c11M(v int) string {
	inc := "include X.journal\n"
	if v == 1 {
		inc = "; X is not included\n"
	}
	// X comes first: when it is dropped and put back it must come first again
	return inc + "include Q.journal\n" + "\n2001-01-01 m\n    m:acc  1 USD\n    q:one  -1 USD\n\n2001-01-02 typing\n    \n"
}

func c11MX(v int) string {
	if v == 0 {
		return "account q:one\n\n2001-02-01 xp0\n    x:zero  2 USD\n    q:one  -2 USD\n"
	}
	return "account q:two\ninclude Y.journal\n\n2001-02-01 xp1\n    x:uno  4 USD\n    q:one  -4 USD\n"
}

// Y is included by the second version of X only
func c11MY(v int) string {
	if v == 0 {
		return "account y:zero\n\n2001-02-05 yp0\n    y:zero  16 USD\n    q:one  -16 USD\n"
	}
	return "account y:uno\n\n2001-02-05 yp1\n    y:uno  32 USD\n    q:one  -32 USD\n"
}

const c11Q = "2001-03-01 q\n    q:one  8 USD\n    q:two  -8 USD\n\n2001-03-02 typing\n    \n"

var c11MemOps = []string{"open:M", "openother:M", "change:M", "save:M", "close:M", "open:X", "openother:X", "change:X", "save:X", "close:X", "open:Y", "openother:Y", "change:Y", "save:Y", "close:Y", "ask:M"}

func c11Labels(r wire.Reply) []string {
	out := c11LabelsInOrder(r)
	sort.Strings(out)
	return out
}

func c11LabelsInOrder(r wire.Reply) []string {
	var v struct{ Items []struct{ Label string } }
	_ = json.Unmarshal([]byte(r.Result), &v)
	var out []string
	for _, it := range v.Items {
		out = append(out, it.Label)
	}
	return out
}

// c11MemObserve opens Q (and M if it is closed) and asks both.
func c11MemObserve(s *wire.Session, dir string, mOpen bool, diskM int) (obs string, qLabels []string) {
	mu, qu := wire.URI(filepath.Join(dir, "M.journal")), wire.URI(filepath.Join(dir, "Q.journal"))
	if !mOpen {
		s.DidOpen(mu, c11M(diskM))
	}
	s.DidOpen(qu, c11Q)
	diag := func(u string) string {
		var codes []string
		for _, dg := range parseDiags(s.Client.Last(u)) {
			codes = append(codes, fmt.Sprintf("%s@%d:%s", dg.Code, dg.StartLine, dg.Message))
		}
		sort.Strings(codes)
		return strings.Join(codes, ",")
	}
	qLabels = c11Labels(s.Call("textDocument/completion", wire.DocPos(qu, 5, 4)))
	mText := c11M(0)
	mTyping := strings.Count(mText, "\n") - 1
	var b strings.Builder
	fmt.Fprintf(&b, "Q.diagnostics=%s\n", diag(qu))
	fmt.Fprintf(&b, "Q.completion=%s\n", strings.Join(qLabels, ","))
	fmt.Fprintf(&b, "Q.hover=%s\n", s.Call("textDocument/hover", wire.DocPos(qu, 1, 6)).Result)
	fmt.Fprintf(&b, "Q.references=%s\n", s.Call("textDocument/references", fmt.Sprintf(`{"textDocument":{"uri":%s},"position":{"line":1,"character":6},"context":{"includeDeclaration":true}}`, wire.Q(qu))).Result)
	fmt.Fprintf(&b, "M.completion=%s\n", strings.Join(c11Labels(s.Call("textDocument/completion", wire.DocPos(mu, mTyping, 4))), ","))
	fmt.Fprintf(&b, "M.completion in the order given=%s\n", strings.Join(c11LabelsInOrder(s.Call("textDocument/completion", wire.DocPos(mu, mTyping, 4))), ","))
	fmt.Fprintf(&b, "M.hover=%s\n", s.Call("textDocument/hover", wire.DocPos(mu, 5, 6)).Result)
	fmt.Fprintf(&b, "wsymbol=%s\n", s.Call("workspace/symbol", `{"query":"p"}`).Result)
	return strings.ReplaceAll(b.String(), dir, ""), qLabels
}

func c11MemRun(c *core.Ctx, dir string, root bool, ops []string) (key string, ok bool) {
	server.VerifxResetGlobals()
	_ = os.MkdirAll(dir, 0o755)
	paths := map[string]string{}
	uris := map[string]string{}
	for _, n := range []string{"M", "X", "Y"} {
		paths[n] = filepath.Join(dir, n+".journal")
		uris[n] = wire.URI(paths[n])
	}
	text := func(f string, v int) string {
		switch f {
		case "M":
			return c11M(v)
		case "X":
			return c11MX(v)
		}
		return c11MY(v)
	}
	for n, p := range paths {
		_ = os.WriteFile(p, []byte(text(n, 0)), 0o644)
	}
	_ = os.WriteFile(filepath.Join(dir, "Q.journal"), []byte(c11Q), 0o644)
	newSession := func() *wire.Session {
		s := wire.New()
		r := ""
		if root {
			r = dir
		}
		s.Initialize(wire.InitOpts{Root: r})
		s.Initialized()
		return s
	}
	s := newSession()
	disk := map[string]int{"M": 0, "X": 0, "Y": 0}
	editor := map[string]int{"M": -1, "X": -1, "Y": -1}
	asked := false
	for _, op := range ops {
		verb, f, _ := strings.Cut(op, ":")
		u, p := uris[f], paths[f]
		switch verb {
		case "open":
			if editor[f] >= 0 {
				return "", false
			}
			editor[f] = disk[f]
			s.DidOpen(u, text(f, editor[f]))
		case "openother":
			// opened with a text that is not the saved one
			if editor[f] >= 0 {
				return "", false
			}
			editor[f] = 1 - disk[f]
			s.DidOpen(u, text(f, editor[f]))
		case "change":
			if editor[f] < 0 {
				return "", false
			}
			editor[f] = 1 - editor[f]
			s.DidChangeFull(u, text(f, editor[f]), 2)
		case "save":
			if editor[f] < 0 || editor[f] == disk[f] {
				return "", false
			}
			disk[f] = editor[f]
			_ = os.WriteFile(p, []byte(text(f, disk[f])), 0o644)
			s.DidSave(u)
		case "close":
			if editor[f] < 0 {
				return "", false
			}
			editor[f] = -1
			s.DidClose(u)
			if f == "M" {
				asked = false
			}
		case "ask":
			// requests in the open root journal: whatever they leave behind in the
			// server must not show later (once per session of M is enough)
			if editor["M"] < 0 || asked {
				return "", false
			}
			asked = true
			mt := strings.Count(c11M(0), "\n") - 1
			s.Call("textDocument/completion", wire.DocPos(uris["M"], mt, 4))
			s.Call("textDocument/hover", wire.DocPos(uris["M"], 5, 6))
			s.Call("textDocument/inlineCompletion", wire.DocPos(uris["M"], mt, 0))
			s.Call("workspace/symbol", `{"query":"p"}`)
		}
	}
	// "asked" is part of the key: a cache the dump does not know must not let the search merge the two
	key = fmt.Sprintf("disk=%v editor=%v asked=%v\n%s\n%s", disk, editor, asked, s.Srv.VerifxDump(), s.Srv.VerifxCachesDump())
	key = strings.ReplaceAll(key, dir, "")
	got, _ := c11MemObserve(s, dir, editor["M"] >= 0, disk["M"])
	// the fresh server: every open document is opened with its saved text and
	// changed to its editor text
	f := newSession()
	for _, n := range []string{"M", "X", "Y"} {
		if editor[n] < 0 {
			continue
		}
		u := uris[n]
		f.DidOpen(u, text(n, disk[n]))
		if editor[n] != disk[n] {
			f.DidChangeFull(u, text(n, editor[n]), 2)
		}
	}
	want, _ := c11MemObserve(f, dir, editor["M"] >= 0, disk["M"])
	c.Res.Evaluations++
	if len(ops) >= 2 {
		c.Res.Nontrivial++
	}
	ws := "no workspace"
	if root {
		ws = "workspace root"
	}
	cur := func(n string) int {
		if editor[n] >= 0 {
			return editor[n]
		}
		return disk[n]
	}
	if got != want {
		part := ""
		gl, wl := strings.Split(got, "\n"), strings.Split(want, "\n")
		for i := range gl {
			if i < len(wl) && gl[i] != wl[i] {
				part = strings.SplitN(gl[i], "=", 2)[0]
				break
			}
		}
		c.Violate(fmt.Sprintf("membership history|%s|%s|%s", ws, part, strings.Join(ops, ">")), "load result independent of cache history (server)",
			fmt.Sprintf("%s, history %v (on disk %v; in the editor %v, -1 = closed)\nserver:\n%s\nfresh server in the same state:\n%s", ws, ops, disk, editor, firstN(got, 1500), firstN(want, 1500)),
			c11MemCase{"membership", root, ops})
	}
	if root {
		// the model: the tree is Q, M and, if M's current text includes it, X's
		// current text, and below that Y if X's current text includes it
		names := []string{"m:acc", "q:one", "q:two"}
		wantDiag := ""
		if cur("M") == 0 {
			if cur("X") == 0 {
				names = append(names, "x:zero")
				wantDiag = "UNDECLARED_ACCOUNT@2:"
			} else {
				names = append(names, "x:uno")
				wantDiag = "UNDECLARED_ACCOUNT@1:"
				if cur("Y") == 0 {
					names = append(names, "y:zero")
				} else {
					names = append(names, "y:uno")
				}
			}
		}
		sort.Strings(names)
		field := func(obs, name string) string {
			for _, l := range strings.Split(obs, "\n") {
				if strings.HasPrefix(l, name+"=") {
					return l[len(name)+1:]
				}
			}
			return "?"
		}
		for _, side := range []struct{ who, obs string }{{"server after the history", got}, {"fresh server", want}} {
			if labels := field(side.obs, "Q.completion"); labels != strings.Join(names, ",") {
				c.Violate(fmt.Sprintf("membership history|%s|names offered in Q|%s|%s", ws, side.who, strings.Join(ops, ">")), "load result independent of cache history (server)",
					fmt.Sprintf("%s, history %v (on disk %v; in the editor %v, -1 = closed), %s\naccounts offered in Q: %s\naccounts of the files in the tree: %s", ws, ops, disk, editor, side.who, labels, strings.Join(names, ",")),
					c11MemCase{"membership", root, ops})
			}
			d := field(side.obs, "Q.diagnostics")
			if (wantDiag == "") != (d == "") || !strings.HasPrefix(d, wantDiag) || strings.Contains(d, ",") {
				c.Violate(fmt.Sprintf("membership history|%s|declarations counted for Q|%s|%s", ws, side.who, strings.Join(ops, ">")), "load result independent of cache history (server)",
					fmt.Sprintf("%s, history %v (on disk %v; in the editor %v, -1 = closed), %s\ndiagnostics of Q: %q\nexpected from the declarations of the files in the tree: %q", ws, ops, disk, editor, side.who, d, wantDiag),
					c11MemCase{"membership", root, ops})
			}
		}
	}
	return key, true
}

func c11MembershipHistories(c *core.Ctx, dir string) {
	depth := 6
	if c.Thorough() {
		depth = 9
	}
	c.Bound("membership histories", fmt.Sprintf("BFS depth %d over %d operations (open with the saved or with the other text / change / save / close / requests in M, on the root journal M whose versions include X or not, and on X) x workspace root on/off; Q and M asked afterwards (diagnostics, completion, hover, references, workspace symbols) and compared with a fresh server in the same final state and with the names of the member files", depth, len(c11MemOps)))
	for ri, root := range []bool{false, true} {
		if !c.MineKey(int64(200 + ri)) {
			continue
		}
		root := root
		st := bfs.Search(len(c11MemOps), depth, 100000, "init", func(path []int) (string, bool) {
			seq := make([]string, len(path))
			for i, p := range path {
				seq[i] = c11MemOps[p]
			}
			return c11MemRun(c, dir, root, seq)
		}, c.Expired)
		c.Res.States += st.States
		c.Res.Transitions += st.Transitions
		c.Res.Traces += st.Transitions
	}
}
