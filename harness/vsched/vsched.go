// Package vsched is a cooperative, fully controlled scheduler for the
// goroutines the server under test starts itself, plus the bookkeeping a
// stateless deviation-bounded DFS needs (enabled sets and choices at every
// scheduling point).
//
// Exactly one controlled thread runs at a time. The hand-off between threads is
// a spin on a plain word that is only touched from //go:norace functions with
// runtime.Gosched() in the loop, so that under -race the hand-off itself is NOT
// a happens-before edge: the race detector keeps seeing exactly the
// synchronisation of the production code (the shim types in vsync wrap the real
// sync primitives). All scheduler state lives in fixed-size arrays for the same
// reason (maps and append carry race instrumentation).
package vsched

import (
	"runtime"
	"sync"
)

const (
	MaxThreads = 24
	MaxPoints  = 6000
)

const (
	tNone uint8 = iota
	tRunnable
	tDone
)

// pending operation kinds
const (
	OpNone  uint8 = iota // always enabled
	OpLock               // needs: no writer, no readers
	OpRLock              // needs: no writer
	OpJoin               // needs: every other thread done
	OpWait               // WaitGroup wait: needs counter == 0
)

// LockState is the scheduler-level view of a mutex; embedded in the shims.
type LockState struct {
	W     bool
	R     int32
	N     int32 // WaitGroup counter
	Owner int8  // thread holding the write lock + 1 (0 = none)
}

type PointRec struct {
	NEnabled   uint8
	Choice     uint8
	Running    uint8 // thread that arrived at the point
	RunEnabled bool  // the arriving thread could have continued
	Kind       uint8 // label of the operation the arriving thread is about to perform
	Enabled    [MaxThreads]uint8
}

var (
	on       bool
	cur      int
	nthreads int
	st       [MaxThreads]uint8
	pendKind [MaxThreads]uint8
	pendObj  [MaxThreads]*LockState
	prefix   []int
	np       int
	trace    [MaxPoints]PointRec
	failure  string
	aborting bool
	wg       sync.WaitGroup
	panics   [MaxThreads]any
	npanics  int

	// inlineSpawn: when the scheduler is off, Spawn runs f synchronously.
	// When FreeRun is set, Spawn uses a plain goroutine (free-running -race pass).
	FreeRun bool
	freeWG  sync.WaitGroup

	// InlineHook (scheduler off): decides per spawn index whether the spawned
	// function runs immediately (true) or is deferred until RunDeferred.
	InlineHook func(spawnIndex int) bool
	spawnCount int
	deferred   []func()
)

// ResetSpawnCount restarts spawn numbering for InlineHook.
func ResetSpawnCount() { spawnCount = 0; deferred = nil }

// RunDeferred runs the spawned functions that InlineHook postponed, in spawn order.
func RunDeferred() {
	for len(deferred) > 0 {
		f := deferred[0]
		deferred = deferred[1:]
		func() {
			// a deferred background computation that panics (an inline deadlock,
			// for instance) ends like a thread of a controlled execution does
			defer func() {
				if p := recover(); p != nil {
					msg := "panic"
					switch v := p.(type) {
					case string:
						msg = v
					case error:
						msg = v.Error()
					}
					DeferredPanics = append(DeferredPanics, msg)
				}
			}()
			f()
		}()
	}
}

// DeferredPanics collects the panics of deferred background computations.
var DeferredPanics []string

// labels for PointRec.Kind (informational; used for non-triviality rules)
const (
	KMapLoad uint8 = iota + 1
	KMapStore
	KMapDelete
	KMapRange
	KLock
	KUnlock
	KRLock
	KRUnlock
	KSpawn
	KStart
	KEnd
	KClient
	KJoin
	KOther
)

type abortSentinel struct{}

// On reports whether a controlled execution is in progress.
//
//go:norace
func On() bool { return on }

// Inline reports the mode in which spawned functions run synchronously on the
// single calling goroutine (neither a controlled execution nor a free run).
func Inline() bool { return !on && !FreeRun }

// InlineDeadlocks lists the lock operations that found their lock held while
// only one goroutine exists: the lock is never released, the operation would
// block forever. The operation panics instead so that the run can go on.
var InlineDeadlocks []string

func InlineDeadlock(op string) {
	msg := "deadlock: " + op + " on a lock that is held and never released (single-goroutine run)"
	if len(InlineDeadlocks) < 100 {
		InlineDeadlocks = append(InlineDeadlocks, msg)
	}
	panic(msg)
}

// Begin starts a controlled execution; the calling goroutine becomes thread 0.
//
//go:norace
func Begin(pfx []int) {
	if on {
		panic("vsched: Begin while an execution is in progress")
	}
	on = true
	cur = 0
	nthreads = 1
	for i := range st {
		st[i] = tNone
		pendKind[i] = OpNone
		pendObj[i] = nil
		panics[i] = nil
	}
	st[0] = tRunnable
	prefix = pfx
	np = 0
	failure = ""
	blockedBehindClient = 0
	for i := range inClient {
		inClient[i] = false
	}
	aborting = false
	npanics = 0
}

// Result of one controlled execution.
type Result struct {
	Points  []PointRec
	Failure string // "", "deadlock", "horizon", "divergence: ..."
	Panics  []any
	Threads int
	// BlockedBehindClient counts the lock acquisitions of T0 (the thread that
	// handles the client's messages) that found the lock held by a thread which
	// was inside a call to the client at that moment.
	BlockedBehindClient int
}

// End joins all threads (a scheduling point for T0) and returns the trace.
//
//go:norace
func End() Result {
	if !on {
		panic("vsched: End without Begin")
	}
	if !aborting {
		join()
	}
	on = false
	// Real happens-before edge from the end of every controlled thread to the
	// reader of the recorded observations. It lies after all server code of this
	// execution.
	wg.Wait()
	res := Result{Failure: failure, Threads: nthreads, BlockedBehindClient: blockedBehindClient}
	res.Points = make([]PointRec, np)
	copy(res.Points, trace[:np])
	for i := 0; i < nthreads; i++ {
		if panics[i] != nil {
			res.Panics = append(res.Panics, panics[i])
		}
	}
	return res
}

//go:norace
func join() {
	me := cur
	pendKind[me] = OpJoin
	schedule(me, KJoin)
	pendKind[me] = OpNone
}

// Drain lets T0 wait until every background thread has ended (a scheduling
// point). Used between requests by the sequential replay.
//
//go:norace
func Drain() {
	if !on {
		if FreeRun {
			freeWG.Wait()
		}
		RunDeferred()
		return
	}
	if aborting {
		return
	}
	join()
}

//go:norace
func canProceed(t int) bool {
	switch pendKind[t] {
	case OpNone:
		return true
	case OpLock:
		l := pendObj[t]
		return !l.W && l.R == 0
	case OpRLock:
		return !pendObj[t].W
	case OpWait:
		return pendObj[t].N == 0
	case OpJoin:
		for i := 0; i < nthreads; i++ {
			if i != t && st[i] != tDone {
				return false
			}
		}
		return true
	}
	return true
}

//go:norace
func waitTurn(me int) {
	for cur != me {
		runtime.Gosched()
	}
	if aborting {
		panic(abortSentinel{})
	}
}

//go:norace
func abort(why string) {
	if failure == "" {
		failure = why
	}
	aborting = true
}

// schedule is called by the running thread me (st[me] is tRunnable with its
// pending op set, or tDone). It picks the next thread and hands off.
//
//go:norace
func schedule(me int, kind uint8) {
	if aborting {
		if st[me] != tDone {
			panic(abortSentinel{})
		}
		// a finished thread hands over to anybody still alive so it can unwind
		for i := 0; i < nthreads; i++ {
			if st[i] != tDone {
				cur = i
				return
			}
		}
		return
	}
	if np >= MaxPoints {
		abort("horizon")
		if st[me] != tDone {
			panic(abortSentinel{})
		}
		schedule(me, kind)
		return
	}
	rec := &trace[np]
	rec.Running = uint8(me)
	rec.Kind = kind
	n := 0
	rec.RunEnabled = false
	if st[me] == tRunnable && canProceed(me) {
		rec.Enabled[n] = uint8(me)
		n++
		rec.RunEnabled = true
	}
	for t := 0; t < nthreads; t++ {
		if t != me && st[t] == tRunnable && canProceed(t) {
			rec.Enabled[n] = uint8(t)
			n++
		}
	}
	rec.NEnabled = uint8(n)
	if n == 0 {
		// nobody can run. If everybody is done this is the normal end (only
		// reachable from T0's End after join, which always has T0 enabled), so
		// this is a deadlock.
		abort("deadlock")
		np++
		if st[me] != tDone {
			panic(abortSentinel{})
		}
		schedule(me, kind)
		return
	}
	idx := 0
	if np < len(prefix) {
		idx = prefix[np]
	}
	if idx >= n {
		abort("divergence: choice out of range")
		np++
		if st[me] != tDone {
			panic(abortSentinel{})
		}
		schedule(me, kind)
		return
	}
	rec.Choice = uint8(idx)
	np++
	next := int(rec.Enabled[idx])
	if next != me {
		cur = next
		if st[me] != tDone {
			waitTurn(me)
		}
	}
}

// Point is a scheduling point before a non-blocking operation.
//
//go:norace
func Point(kind uint8) {
	if !on {
		return
	}
	me := cur
	pendKind[me] = OpNone
	schedule(me, kind)
}

// Acquire is a scheduling point before a lock acquisition; it returns once the
// scheduler-level lock state has been taken for the caller.
//
//go:norace
func Acquire(l *LockState, write bool) {
	if !on {
		return
	}
	me := cur
	if me == 0 && l.W && l.Owner > 0 && inClient[l.Owner-1] {
		blockedBehindClient++
	}
	if write {
		pendKind[me] = OpLock
	} else {
		pendKind[me] = OpRLock
	}
	pendObj[me] = l
	k := KRLock
	if write {
		k = KLock
	}
	schedule(me, k)
	pendKind[me] = OpNone
	pendObj[me] = nil
	if write {
		l.W = true
		l.Owner = int8(me) + 1
	} else {
		l.R++
	}
}

// inClient marks the threads that are inside a call to the client (between
// EnterClient and LeaveClient of the client stub).
var (
	inClient            [MaxThreads]bool
	blockedBehindClient int
)

// EnterClient / LeaveClient bracket a call to the client.
//
//go:norace
func EnterClient() {
	if on {
		inClient[cur] = true
	}
}

//go:norace
func LeaveClient() {
	if on {
		inClient[cur] = false
	}
}

// TryAcquire: point, then take the lock if it is free.
//
//go:norace
func TryAcquire(l *LockState, write bool) bool {
	if !on {
		return true
	}
	Point(KOther)
	if write {
		if l.W || l.R != 0 {
			return false
		}
		l.W = true
		return true
	}
	if l.W {
		return false
	}
	l.R++
	return true
}

// Release updates the scheduler-level state (called before the real unlock)
// and is a scheduling point afterwards.
//
//go:norace
func Release(l *LockState, write bool) {
	if !on {
		return
	}
	if write {
		l.W = false
		l.Owner = 0
	} else {
		l.R--
	}
}

//go:norace
func AfterRelease(write bool) {
	if !on || aborting {
		return
	}
	k := KRUnlock
	if write {
		k = KUnlock
	}
	Point(k)
}

// WaitGroup support.
//
//go:norace
func WGAdd(l *LockState, d int) {
	if !on {
		return
	}
	Point(KOther)
	l.N += int32(d)
}

//go:norace
func WGWait(l *LockState) {
	if !on {
		return
	}
	me := cur
	pendKind[me] = OpWait
	pendObj[me] = l
	schedule(me, KOther)
	pendKind[me] = OpNone
	pendObj[me] = nil
}

//go:norace
func newThread() int {
	id := nthreads
	if id >= MaxThreads {
		abort("horizon: too many threads")
		panic(abortSentinel{})
	}
	nthreads++
	st[id] = tRunnable
	pendKind[id] = OpNone
	return id
}

//go:norace
func threadEnd(id int, p any) {
	if p != nil {
		if _, ok := p.(abortSentinel); !ok {
			panics[id] = p
			npanics++
		}
	}
	st[id] = tDone
	schedule(id, KEnd)
}

// Spawn runs f as a new controlled thread (scheduler on), synchronously
// (scheduler off, the default "inline" schedule in which the spawned goroutine
// wins every race), or as a plain goroutine (FreeRun).
func Spawn(f func()) {
	if !On() {
		if FreeRun {
			freeWG.Add(1)
			go func() {
				defer freeWG.Done()
				f()
			}()
			return
		}
		idx := spawnCount
		spawnCount++
		if InlineHook != nil && !InlineHook(idx) {
			deferred = append(deferred, f)
			return
		}
		f()
		return
	}
	id := newThread()
	wg.Add(1)
	go func() {
		defer wg.Done()
		defer func() {
			p := recover()
			threadEnd(id, p)
		}()
		waitTurn(id)
		f()
	}()
	Point(KSpawn)
}

// RunT0 runs body as thread 0 of a controlled execution and returns the trace.
// A panic in body (other than the abort sentinel) is reported in Result.Panics.
func RunT0(pfx []int, body func()) (res Result) {
	Begin(pfx)
	var t0panic any
	func() {
		defer func() {
			if p := recover(); p != nil {
				if _, ok := p.(abortSentinel); !ok {
					t0panic = p
				}
				abortFromT0()
			}
		}()
		body()
	}()
	res = End()
	if t0panic != nil {
		res.Panics = append(res.Panics, t0panic)
	}
	return res
}

//go:norace
func abortFromT0() {
	if !aborting {
		abort("t0 panic")
	}
	// let every other thread unwind
	st[0] = tDone
	for {
		alive := -1
		for i := 1; i < nthreads; i++ {
			if st[i] != tDone {
				alive = i
				break
			}
		}
		if alive < 0 {
			break
		}
		cur = alive
		for st[alive] != tDone {
			runtime.Gosched()
		}
	}
	cur = 0
}
