package gmodel

import (
	"fmt"
	"sort"
	"strings"
)

// Dev is one deviation from the default journal: parameter Group set to the
// non-default value Name.
type Dev struct {
	Group string
	Name  string
	Apply func(j *Journal)
}

func (d Dev) String() string { return d.Group + "=" + d.Name }

func DevNames(ds []Dev) string {
	var s []string
	for _, d := range ds {
		s = append(s, d.String())
	}
	sort.Strings(s)
	return strings.Join(s, " & ")
}

func usd(text, val string, neg bool) *Amount {
	return &Amount{Num: Num(text, val), Neg: neg, Sym: "$", Side: SideLeft}
}

// Default is the default journal: two plain ASCII transactions.
func Default() *Journal {
	return &Journal{
		LineEnd: "\n", FinalNewline: true, Blank: 1,
		Entries: []Entry{
			{Kind: EntryTx, Tx: &Tx{
				Date: Date{2001, 1, 2, "-", true, false}, Gap: 1, HeaderKind: HeaderDesc, Desc: "grocery store",
				Postings: []Posting{
					{Indent: "    ", Account: "expenses:food", Sep: "  ", Amount: usd("12.50", "25/2", false)},
					{Indent: "    ", Account: "assets:cash"},
				}}},
			{Kind: EntryTx, Tx: &Tx{
				Date: Date{2001, 1, 5, "-", true, false}, Gap: 1, HeaderKind: HeaderDesc, Desc: "second shop",
				Postings: []Posting{
					{Indent: "    ", Account: "expenses:misc", Sep: "  ", Amount: usd("3.00", "3", false)},
					{Indent: "    ", Account: "assets:cash", Sep: "  ", Amount: usd("3.00", "3", true)},
				}}},
		},
	}
}

// NumberSpellings is the quantity-spelling alphabet of G (§4.2) with exact values.
var NumberSpellings = []Number{
	Num("12,50", "25/2"),
	Num("1,234.50", "2469/2"),
	Num("1.234,50", "2469/2"),
	Num("1 234.50", "2469/2"),
	Num("1 234,50", "2469/2"),
	Num("1,00,000.00", "100000"),
	Num("1,234,567", "1234567"),
	Num("10.", "10"),
	Num("1E3", "1000"),
	Num("1e-6", "1/1000000"),
	Num("2.5E+2", "250"),
	Num("0.000001", "1/1000000"),
	Num("0.123456789012", "123456789012/1000000000000"),
	Num("5", "5"),
	Num("0", "0"),
	Num("1234567.25", "123456725/100"),
	// a zero integer part cannot be a digit group: the mark is a decimal mark
	Num("0.125", "1/8"),
	Num("0,125", "1/8"),
	// exponent after a single mark and exactly one digit: "5E2" is not a digit group
	Num("1.5E2", "150"),
	Num("2,5e2", "250"),
}

type symSpec struct {
	name   string
	sym    string
	quoted bool
	side   int
	gap    int
}

var CommoditySpecs = []symSpec{
	{"euro-left", "€", false, SideLeft, 0},
	{"USD-right", "USD", false, SideRight, 1},
	{"USD-left", "USD", false, SideLeft, 0},
	{"hours-right", "hours", false, SideRight, 1},
	{"quoted-right", "green apples", true, SideRight, 1},
	{"quoted-left", "ACME Inc.", true, SideLeft, 1},
	{"quoted-nonbmp-right", "🍎 share", true, SideRight, 1},
	{"none", "", false, SideNone, 0},
	{"rub-right-nogap", "₽", false, SideRight, 0},
	{"USD-right-nogap", "USD", false, SideRight, 0},
	{"USD-right-2gap", "USD", false, SideRight, 2},
	{"word-nonascii-right", "руб", false, SideRight, 1},
	// letters outside the BMP (two UTF-16 units each) in an unquoted commodity word
	{"word-nonbmp-letters-right", "𝔸𝔹", false, SideRight, 1},
}

var DescShapes = []string{"Capitalised Words", "ALLCAPS", "7leading digit", "with:colon", "pay $5", "a=b", "naïve café", "🍕 pizza", "two  spaces"}
var NoteShapes = []string{"NOTE", "x:y", "ñ", "second note 7"}
var AccountShapes = []string{"assets:bank account", "a:b2", "Assets:Cash", "расходы:еда", "expenses:🍕", "expenses:food:fruit:apple", "income:salary 2001", "credit card:visa"}

func strp(s string) *string { return &s }

func tx0(j *Journal) *Tx {
	for i := range j.Entries {
		if j.Entries[i].Kind == EntryTx {
			return j.Entries[i].Tx
		}
	}
	return nil
}

func p0(j *Journal) *Posting {
	t := tx0(j)
	if t == nil || len(t.Postings) == 0 {
		return nil
	}
	return &t.Postings[0]
}

func p1(j *Journal) *Posting {
	t := tx0(j)
	if t == nil || len(t.Postings) < 2 {
		return nil
	}
	return &t.Postings[1]
}

func a0(j *Journal) *Amount {
	p := p0(j)
	if p == nil {
		return nil
	}
	return p.Amount
}

// DirectiveEntries are the directive / comment entries of G.
func DirectiveEntries() map[string]Entry {
	return map[string]Entry{
		"account":                 {Kind: EntryAccount, Account: "assets:cash"},
		"account-comment":         {Kind: EntryAccount, Account: "assets:bank account", Comment: &Comment{Text: " type:A", Tags: []Tag{{"type", "A"}}}},
		"account-subline":         {Kind: EntryAccount, Account: "expenses:food", SubComment: " a note"},
		"commodity":               {Kind: EntryCommodity, Sym: "$", Format: "$1,000.00"},
		"commodity-right":         {Kind: EntryCommodity, Sym: "EUR", Format: "1.000,00 EUR"},
		"commodity-space":         {Kind: EntryCommodity, Sym: "USD", Format: "1 000.00 USD"},
		"commodity-quoted":        {Kind: EntryCommodity, Sym: "x y", Quoted: true, Format: `1,000.00 "x y"`},
		"commodity-fmt":           {Kind: EntryCommodityFmt, Sym: "EUR", Format: "1.000,00 EUR"},
		"commodity-fmt-comment":   {Kind: EntryCommodityFmt, Sym: "EUR", Format: "1.000,00 EUR", FmtComment: " the format", SubNote: "euro"},
		"commodity-fmt-note":      {Kind: EntryCommodityFmt, Sym: "EUR", Format: "1.000,00 EUR", SubNote: "euro"},
		"account-trailing-blank":  {Kind: EntryAccount, Account: "assets:cash", Trail: " "},
		"commodity-nonascii":      {Kind: EntryCommodity, Sym: "руб", Format: "1.000,00 руб", Trail: "  "},
		"commodity-trailing-tab":  {Kind: EntryCommodity, Sym: "EUR", Format: "1.000,00 EUR", Trail: "\t"},
		"include":                 {Kind: EntryInclude, Path: "sub/other.journal"},
		"include-glob":            {Kind: EntryInclude, Path: "sub/*.journal"},
		"include-blanks-in-path":  {Kind: EntryInclude, Path: "2001 other file.journal"},
		"include-trailing-blanks": {Kind: EntryInclude, Path: "sub/other.journal", Trail: "  "},
		"include-comment":         {Kind: EntryInclude, Path: "sub/other.journal", Comment: &Comment{Text: " the rest"}},
		"price":                   {Kind: EntryPrice, PDate: Date{2001, 1, 3, "-", true, false}, Sym: "EUR", Price: Amount{Num: Num("1.10", "11/10"), Sym: "$", Side: SideLeft}},
		"price-right":             {Kind: EntryPrice, PDate: Date{2001, 1, 3, "/", true, false}, Sym: "$", Price: Amount{Num: Num("0,90", "9/10"), Sym: "EUR", Side: SideRight, Gap: 1}},
		"year":                    {Kind: EntryYear, Year: 2001, YearKeyword: "Y"},
		"year-long":               {Kind: EntryYear, Year: 2002, YearKeyword: "year"},
		"default-commodity":       {Kind: EntryDefaultCommodity, Sym: "$", Format: "$1,000.00"},
		"default-commodity-right": {Kind: EntryDefaultCommodity, Sym: "EUR", Format: "1.000,00 EUR"},
		// a header without postings whose payee has postings elsewhere: the line below it is where a template is offered
		"tx-header-only": {Kind: EntryTx, Tx: &Tx{Date: Date{2001, 1, 4, "-", true, false}, Gap: 1, HeaderKind: HeaderDesc, Desc: "grocery store"}},
		"comment":        {Kind: EntryComment, Comment: &Comment{Text: " a comment line"}},
		"comment-hash":   {Kind: EntryComment, CommentMark: "#", Comment: &Comment{Text: " hash comment"}},
		"comment-tag":    {Kind: EntryComment, Comment: &Comment{Text: " tag:v", Tags: []Tag{{"tag", "v"}}}},
	}
}

func sortedKeys[V any](m map[string]V) []string {
	var ks []string
	for k := range m {
		ks = append(ks, k)
	}
	sort.Strings(ks)
	return ks
}

// Deviations returns the catalogue of single deviations (Appendix A of the design).
func Deviations() []Dev {
	var ds []Dev
	add := func(group, name string, f func(j *Journal)) { ds = append(ds, Dev{group, name, f}) }

	// file level
	add("line-end", "CRLF", func(j *Journal) { j.LineEnd = "\r\n" })
	add("final-newline", "absent", func(j *Journal) { j.FinalNewline = false })
	add("blank-lines", "0", func(j *Journal) { j.Blank = 0 })
	add("blank-lines", "2", func(j *Journal) { j.Blank = 2 })
	add("trailing-header", "2 spaces", func(j *Journal) { tx0(j).Trail = "  " })
	add("trailing-header", "tab", func(j *Journal) { tx0(j).Trail = "\t" })
	add("trailing-posting", "2 spaces", func(j *Journal) {
		if p := p0(j); p != nil {
			p.Trail = "  "
		}
	})
	add("trailing-posting", "1 space", func(j *Journal) {
		if p := p0(j); p != nil {
			p.Trail = " "
		}
	})
	add("trailing-posting", "1 space on the second", func(j *Journal) {
		if p := p1(j); p != nil {
			p.Trail = " "
		}
	})
	add("trailing-header", "1 space", func(j *Journal) { tx0(j).Trail = " " })
	add("trailing-posting", "tab", func(j *Journal) {
		if p := p1(j); p != nil {
			p.Trail = "\t"
		}
	})

	// header
	for _, sep := range []string{"/", "."} {
		sep := sep
		add("date-sep", sep, func(j *Journal) { tx0(j).Date.Sep = sep })
	}
	add("date-pad", "unpadded", func(j *Journal) { tx0(j).Date.Pad = false })
	add("date2", "present", func(j *Journal) { tx0(j).Date2 = &Date{2001, 2, 3, "-", true, false} })
	add("date2", "slash-unpadded", func(j *Journal) { tx0(j).Date2 = &Date{2001, 2, 3, "/", false, false} })
	for _, st := range []string{"*", "!"} {
		st := st
		add("status", st, func(j *Journal) { tx0(j).Status = st })
	}
	for _, code := range []string{"123", "a b", ""} {
		code := code
		add("code", "("+code+")", func(j *Journal) { tx0(j).Code = strp(code) })
	}
	add("header-gap", "2", func(j *Journal) { tx0(j).Gap = 2 })
	add("header-kind", "payee|note", func(j *Journal) {
		t := tx0(j)
		t.HeaderKind, t.Payee, t.Note, t.PipeBefore, t.PipeAfter = HeaderPayeeNote, "grocery store", "weekly note", 1, 1
	})
	add("header-kind", "empty", func(j *Journal) { tx0(j).HeaderKind = HeaderEmpty })
	for _, s := range DescShapes {
		s := s
		add("desc-shape", s, func(j *Journal) {
			t := tx0(j)
			if t.HeaderKind == HeaderPayeeNote {
				t.Payee = s
			} else {
				t.Desc = s
			}
		})
	}
	for _, s := range NoteShapes {
		s := s
		add("note-shape", s, func(j *Journal) {
			t := tx0(j)
			if t.HeaderKind != HeaderPayeeNote {
				t.HeaderKind, t.Payee, t.PipeBefore, t.PipeAfter = HeaderPayeeNote, t.Desc, 1, 1
			}
			t.Note = s
		})
	}
	add("pipe-blanks", "0/0", func(j *Journal) {
		t := tx0(j)
		if t.HeaderKind != HeaderPayeeNote {
			t.HeaderKind, t.Payee, t.Note = HeaderPayeeNote, t.Desc, "weekly note"
		}
		t.PipeBefore, t.PipeAfter = 0, 0
	})
	add("pipe-blanks", "2/2", func(j *Journal) {
		t := tx0(j)
		if t.HeaderKind != HeaderPayeeNote {
			t.HeaderKind, t.Payee, t.Note = HeaderPayeeNote, t.Desc, "weekly note"
		}
		t.PipeBefore, t.PipeAfter = 2, 2
	})
	hc := map[string]Comment{
		"text":                  {Text: " some text"},
		"tag":                   {Text: " tag:v", Tags: []Tag{{"tag", "v"}}},
		"two-tags":              {Text: " a:1, b:", Tags: []Tag{{"a", "1"}, {"b", ""}}},
		"nospace":               {Text: "nospace"},
		"nonascii-before-tag":   {Text: " é t:v", Tags: []Tag{{"t", "v"}}},
		"date-tag":              {Text: " date:2001-01-09", Tags: []Tag{{"date", "2001-01-09"}}},
		"tag-words":             {Text: " Tag-1:two words, t_2:é", Tags: []Tag{{"Tag-1", "two words"}, {"t_2", "é"}}},
		"nonbmp-tags":           {Text: " trip:🍕 pizza, k2:v", Tags: []Tag{{"trip", "🍕 pizza"}, {"k2", "v"}}},
		"nonbmp-before-tags":    {Text: " 🎉 fun, trip:paris, k2:v", Tags: []Tag{{"trip", "paris"}, {"k2", "v"}}},
		"tag-name-inside-value": {Text: " note:see ref:12, ref:12", Tags: []Tag{{"note", "see ref:12"}, {"ref", "12"}}},
		"value-recurs":          {Text: " trip:rome, city:rome, ref:7, batch:17", Tags: []Tag{{"trip", "rome"}, {"city", "rome"}, {"ref", "7"}, {"batch", "17"}}},
	}
	for _, k := range sortedKeys(hc) {
		c := hc[k]
		add("header-comment", k, func(j *Journal) { cc := c; tx0(j).Comment = &cc })
	}
	add("header-comment-gap", "1", func(j *Journal) {
		t := tx0(j)
		if t.Comment == nil {
			t.Comment = &Comment{Text: " some text"}
		}
		t.CommentGap = 1
	})
	add("tx-comment-line", "text", func(j *Journal) { tx0(j).Lines = []Comment{{Text: " a line"}} })
	add("tx-comment-line", "tag", func(j *Journal) { tx0(j).Lines = []Comment{{Text: " trip:rome", Tags: []Tag{{"trip", "rome"}}}} })

	// postings
	add("posting-count", "0", func(j *Journal) { tx0(j).Postings = nil })
	add("posting-count", "1", func(j *Journal) { tx0(j).Postings = tx0(j).Postings[:1] })
	add("posting-count", "3", func(j *Journal) {
		t := tx0(j)
		t.Postings = append(t.Postings, Posting{Indent: "    ", Account: "expenses:tips", Sep: "  ", Amount: usd("1.00", "1", false)})
	})
	add("posting-count", "4", func(j *Journal) {
		t := tx0(j)
		t.Postings = append(t.Postings,
			Posting{Indent: "    ", Account: "expenses:tips", Sep: "  ", Amount: usd("1.00", "1", false)},
			Posting{Indent: "    ", Account: "liabilities:card", Sep: "  ", Amount: usd("2.00", "2", true)})
	})
	for _, kv := range [][2]string{{"1 space", " "}, {"2 spaces", "  "}, {"8 spaces", "        "}, {"tab", "\t"}} {
		name, ind := kv[0], kv[1]
		add("indent", name, func(j *Journal) {
			if p := p0(j); p != nil {
				p.Indent = ind
			}
		})
	}
	for _, st := range []string{"*", "!"} {
		st := st
		add("posting-status", st, func(j *Journal) {
			if p := p0(j); p != nil {
				p.Status = st
			}
		})
	}
	add("posting-kind", "(virtual)", func(j *Journal) {
		if p := p0(j); p != nil {
			p.Kind = KindVirtual
		}
	})
	add("posting-kind", "[balanced]", func(j *Journal) {
		if p := p0(j); p != nil {
			p.Kind = KindBalanced
		}
	})
	for _, s := range AccountShapes {
		s := s
		add("account-shape", s, func(j *Journal) {
			if p := p0(j); p != nil {
				p.Account = s
			}
		})
	}
	// account lengths around the longest other account of the default journal (13):
	// the padding to the amount column passes through 0, 1, 2 and 3 blanks
	for _, a := range []string{"expenses:fo", "expenses:foo", "expenses:foods", "expenses:foodie"} {
		a := a
		add("account-len", fmt.Sprint(len(a)), func(j *Journal) {
			if p := p0(j); p != nil {
				p.Account = a
			}
		})
	}
	add("amount-present", "none on first", func(j *Journal) {
		if p := p0(j); p != nil {
			p.Amount, p.Cost, p.Assert = nil, nil, nil
		}
	})
	add("amount-present", "also on last", func(j *Journal) {
		if p := p1(j); p != nil {
			p.Sep, p.Amount = "  ", usd("12.50", "25/2", true)
		}
	})
	for _, kv := range [][2]string{{"3 spaces", "   "}, {"8 spaces", "        "}, {"tab", "\t"}} {
		name, sep := kv[0], kv[1]
		add("amount-sep", name, func(j *Journal) {
			if p := p0(j); p != nil {
				p.Sep = sep
			}
		})
	}
	for _, cs := range CommoditySpecs {
		cs := cs
		add("commodity", cs.name, func(j *Journal) {
			if a := a0(j); a != nil {
				a.Sym, a.Quoted, a.Side, a.Gap = cs.sym, cs.quoted, cs.side, cs.gap
			}
		})
	}
	add("sign", "negative", func(j *Journal) {
		if a := a0(j); a != nil {
			a.Neg = true
		}
	})
	add("sign", "negative-before-commodity", func(j *Journal) {
		if a := a0(j); a != nil {
			a.Neg, a.SignPos = true, SignBeforeCommodity
		}
	})
	add("sign", "explicit-plus", func(j *Journal) {
		if a := a0(j); a != nil {
			a.Plus = true
		}
	})
	add("sign", "plus-before-commodity", func(j *Journal) {
		if a := a0(j); a != nil {
			a.Plus, a.SignPos = true, SignBeforeCommodity
		}
	})
	for _, n := range NumberSpellings {
		n := n
		add("number", n.Text, func(j *Journal) {
			if a := a0(j); a != nil {
				a.Num = n
			}
		})
	}
	costAmt := Amount{Num: Num("1.10", "11/10"), Sym: "EUR", Side: SideRight, Gap: 1}
	for _, c := range []struct {
		name          string
		total         bool
		before, after int
	}{{"@ 1/1", false, 1, 1}, {"@@ 1/1", true, 1, 1}, {"@ 1/0", false, 1, 0}, {"@ 2/2", false, 2, 2}, {"@@ 1/0", true, 1, 0}} {
		c := c
		add("cost", c.name, func(j *Journal) {
			if p := p0(j); p != nil && p.Amount != nil {
				p.Cost = &Cost{Total: c.total, Amount: costAmt, Before: c.before, After: c.after}
			}
		})
	}
	add("cost-amount", "left-symbol", func(j *Journal) {
		if p := p0(j); p != nil && p.Amount != nil {
			if p.Cost == nil {
				p.Cost = &Cost{Before: 1, After: 1}
			}
			p.Cost.Amount = Amount{Num: Num("0,90", "9/10"), Sym: "€", Side: SideLeft}
		}
	})
	add("cost-amount", "quoted", func(j *Journal) {
		if p := p0(j); p != nil && p.Amount != nil {
			if p.Cost == nil {
				p.Cost = &Cost{Before: 1, After: 1}
			}
			p.Cost.Amount = Amount{Num: Num("2", "2"), Sym: "green apples", Quoted: true, Side: SideRight, Gap: 1}
		}
	})
	assertAmt := Amount{Num: Num("100.00", "100"), Sym: "$", Side: SideLeft}
	for _, c := range []struct {
		name          string
		strict        bool
		before, after int
	}{{"= 1/1", false, 1, 1}, {"== 1/1", true, 1, 1}, {"= 2/0", false, 2, 0}, {"== 2/1", true, 2, 1}} {
		c := c
		add("assertion", c.name, func(j *Journal) {
			if p := p0(j); p != nil && p.Amount != nil {
				p.Assert = &Assertion{Strict: c.strict, Amount: assertAmt, Before: c.before, After: c.after}
			}
		})
	}
	pc := map[string]Comment{
		"text":                  {Text: " some text"},
		"nospace":               {Text: "text"},
		"two-blanks":            {Text: "  two blanks"},
		"tag":                   {Text: " tag:v", Tags: []Tag{{"tag", "v"}}},
		"two-tags":              {Text: " a:1, b:2", Tags: []Tag{{"a", "1"}, {"b", "2"}}},
		"nonascii-before-tag":   {Text: " é t:v", Tags: []Tag{{"t", "v"}}},
		"three-tags":            {Text: " x:1, y:, z:two words", Tags: []Tag{{"x", "1"}, {"y", ""}, {"z", "two words"}}},
		"nonbmp-tags":           {Text: " trip:🍕 pizza, k2:v", Tags: []Tag{{"trip", "🍕 pizza"}, {"k2", "v"}}},
		"nonbmp-before-tags":    {Text: " 🎉 fun, trip:paris, k2:v", Tags: []Tag{{"trip", "paris"}, {"k2", "v"}}},
		"tag-name-inside-value": {Text: " note:see ref:12, ref:12", Tags: []Tag{{"note", "see ref:12"}, {"ref", "12"}}},
		"value-recurs":          {Text: " trip:rome, city:rome, ref:7, batch:17", Tags: []Tag{{"trip", "rome"}, {"city", "rome"}, {"ref", "7"}, {"batch", "17"}}},
	}
	for _, k := range sortedKeys(pc) {
		c := pc[k]
		add("posting-comment", k, func(j *Journal) {
			if p := p0(j); p != nil {
				cc := c
				p.Comment = &cc
			}
		})
	}
	add("comment-line-after-posting", "first, text", func(j *Journal) {
		if p := p0(j); p != nil {
			p.After = []Comment{{Text: " about the posting"}}
		}
	})
	add("comment-line-after-posting", "last, tag", func(j *Journal) {
		if p := p1(j); p != nil {
			p.After = []Comment{{Text: " seen:yes", Tags: []Tag{{"seen", "yes"}}}}
		}
	})
	add("last-posting-comment", "tag", func(j *Journal) {
		if p := p1(j); p != nil {
			p.Comment = &Comment{Text: " k:v", Tags: []Tag{{"k", "v"}}}
		}
	})

	// entry order: a directive / comment entry before, between or after the transactions
	de := DirectiveEntries()
	for _, k := range sortedKeys(de) {
		e := de[k]
		k := k
		add("entry-before", k, func(j *Journal) { j.Entries = append([]Entry{cloneEntry(e)}, j.Entries...) })
		add("entry-between", k, func(j *Journal) {
			n := len(j.Entries)
			out := append([]Entry{}, j.Entries[:n-1]...)
			out = append(out, cloneEntry(e))
			j.Entries = append(out, j.Entries[n-1])
		})
		if k == "account" || k == "commodity" || k == "include" || k == "price" || k == "comment" {
			add("entry-after", k, func(j *Journal) { j.Entries = append(j.Entries, cloneEntry(e)) })
		}
	}
	// partial dates after a Y directive
	add("partial-date", "Y 2001 + M-D", func(j *Journal) {
		j.Entries = append([]Entry{{Kind: EntryYear, Year: 2001, YearKeyword: "Y"}}, j.Entries...)
		t := tx0(j)
		t.Date.Partial = true
	})
	// same names reused across entries
	add("shared-names", "payee+account+commodity", func(j *Journal) {
		var txs []*Tx
		for i := range j.Entries {
			if j.Entries[i].Kind == EntryTx {
				txs = append(txs, j.Entries[i].Tx)
			}
		}
		if len(txs) >= 2 {
			txs[1].Desc = txs[0].Desc
			if len(txs[0].Postings) > 0 && len(txs[1].Postings) > 0 {
				txs[1].Postings[0].Account = txs[0].Postings[0].Account
			}
		}
	})
	return ds
}

func cloneEntry(e Entry) Entry {
	c := e
	if e.Comment != nil {
		cc := *e.Comment
		c.Comment = &cc
	}
	return c
}

// Enumerate visits every journal with at most bound deviations (no two from the
// same group), in order of increasing deviation count. base must build a fresh
// default journal each time. filter (optional) restricts the catalogue.
func Enumerate(base func() *Journal, devs []Dev, bound int, visit func(j *Journal, applied []Dev) bool) {
	var rec func(start int, applied []Dev, size int) bool
	rec = func(start int, applied []Dev, size int) bool {
		if len(applied) == size {
			j := base()
			for _, d := range applied {
				d.Apply(j)
			}
			return visit(j, applied)
		}
		for i := start; i < len(devs); i++ {
			dup := false
			for _, a := range applied {
				if a.Group == devs[i].Group {
					dup = true
					break
				}
			}
			if dup {
				continue
			}
			if !rec(i+1, append(applied[:len(applied):len(applied)], devs[i]), size) {
				return false
			}
		}
		return true
	}
	for size := 0; size <= bound; size++ {
		if !rec(0, nil, size) {
			return
		}
	}
}

// Filter keeps the deviations whose group is in groups (prefix match on "group" or "group=name").
func Filter(devs []Dev, groups ...string) []Dev {
	var out []Dev
	for _, d := range devs {
		for _, g := range groups {
			if d.Group == g || d.String() == g || (strings.HasSuffix(g, "*") && strings.HasPrefix(d.Group, strings.TrimSuffix(g, "*"))) {
				out = append(out, d)
				break
			}
		}
	}
	return out
}

var _ = fmt.Sprint
