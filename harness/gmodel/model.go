// Package gmodel is grammar G of DESIGN §4.2 as a model plus a renderer: a
// journal is built as a value, rendered to text, and every element's exact
// span (bytes, runes, UTF-16 units) is recorded while rendering. The model is
// the ground truth for every "the server extracted X" and "the range covers
// exactly that text" oracle; it shares no code with the repository.
package gmodel

import (
	"fmt"
	"math/big"
	"strings"
	"unicode/utf8"
)

// ---- model -------------------------------------------------------------------

type Date struct {
	Y, M, D int
	Sep     string // "-", "/", "."
	Pad     bool   // leading zeros
	Partial bool   // M-D only (needs a Y directive before)
}

func (d Date) String() string {
	sep := d.Sep
	if sep == "" {
		sep = "-"
	}
	f := "%d"
	if d.Pad {
		f = "%02d"
	}
	md := fmt.Sprintf(f+sep+f, d.M, d.D)
	if d.Partial {
		return md
	}
	return fmt.Sprintf("%04d", d.Y) + sep + md
}

type Tag struct {
	Name, Value string
}

// Comment is the text after ';' exactly as written (including leading blanks),
// with the tags it is meant to carry.
type Comment struct {
	Text string
	Tags []Tag
}

type Number struct {
	Text  string   // spelling as written, without sign
	Value *big.Rat // exact value of Text (non-negative)
}

func Num(text, value string) Number {
	r, ok := new(big.Rat).SetString(value)
	if !ok {
		panic("bad rational " + value)
	}
	return Number{text, r}
}

const (
	SideNone  = 0
	SideLeft  = 1
	SideRight = 2
)

const (
	SignBeforeNumber    = 0 // -5 USD, $-5
	SignBeforeCommodity = 1 // -$5
)

type Amount struct {
	Num      Number
	Neg      bool
	Plus     bool   // explicit + on a positive amount
	Sym      string // commodity symbol without quotes ("" = none)
	Quoted   bool
	Side     int
	Gap      int // blanks between number and right commodity / left commodity and number
	SignPos  int
	signLess bool
}

// Value is the signed exact quantity.
func (a Amount) Value() *big.Rat {
	v := new(big.Rat).Set(a.Num.Value)
	if a.Neg {
		v.Neg(v)
	}
	return v
}

type Cost struct {
	Total  bool
	Amount Amount
	Before int // blanks before the operator (min 1)
	After  int // blanks after the operator
}

type Assertion struct {
	Strict bool
	Amount Amount
	Before int
	After  int
}

const (
	KindOrdinary = 0
	KindVirtual  = 1 // (account)
	KindBalanced = 2 // [account]
)

type Posting struct {
	Indent  string
	Status  string // "", "*", "!"
	Kind    int
	Account string
	Sep     string // separator before the amount
	Amount  *Amount
	Cost    *Cost
	Assert  *Assertion
	After   []Comment // indented comment lines following the posting line
	Comment *Comment
	Trail   string // trailing blanks
}

const (
	HeaderDesc      = 0
	HeaderPayeeNote = 1
	HeaderEmpty     = 2
)

type Tx struct {
	Date       Date
	Date2      *Date
	Status     string
	Code       *string // content between parentheses
	Gap        int     // blanks after date / status / code (min 1)
	HeaderKind int
	Desc       string
	Payee      string
	Note       string
	PipeBefore int
	PipeAfter  int
	Comment    *Comment  // header comment
	CommentGap int       // blanks before the header comment's ';' (default 2)
	Lines      []Comment // indented comment lines directly under the header
	Postings   []Posting
	Trail      string
}

// Entry kinds
const (
	EntryTx = iota
	EntryAccount
	EntryCommodity    // commodity <format amount>  (inline)
	EntryCommodityFmt // commodity SYM + "  format ..." sub-line
	EntryInclude
	EntryPrice
	EntryYear
	EntryDefaultCommodity
	EntryComment
)

type Entry struct {
	Kind int
	Tx   *Tx

	// directives
	Account     string
	Comment     *Comment // trailing comment of account directive / comment-line text
	SubComment  string   // indented "; note" line under an account directive
	Sym         string   // commodity symbol (commodity, P, D)
	Quoted      bool
	Format      string // format as written, e.g. "$1,000.00" or "1.000,00 EUR"
	Path        string // include path
	PDate       Date
	Price       Amount
	Year        int
	YearKeyword string // "Y" or "year"
	CommentMark string // ";" or "#" for comment-line entries
	Trail       string
	// FmtComment: a trailing comment on the "format" sub-line of a commodity
	// directive; SubNote: a further sub-line "note <text>" below it
	FmtComment string
	SubNote    string
}

type Journal struct {
	Entries      []Entry
	LineEnd      string // "\n" or "\r\n"
	FinalNewline bool
	Blank        int // blank lines between entries
}

// ---- position map ------------------------------------------------------------

// Span is the exact location of one model element in the rendered text.
type Span struct {
	Kind    string // date date2 status code payee note description account commodity number amount operator comment tagname tagvalue directive includepath entry posting
	Text    string // the covered text
	Name    string // semantic name (account name, symbol without quotes, tag name ...)
	Entry   int    // index of the entry
	Post    int    // index of the posting (-1 if none)
	Role    string // amount | cost | assertion | price | format | header | posting | line | directive
	Line    int    // 0-based line
	B0, B1  int    // byte columns in the line
	R0, R1  int    // rune columns
	U0, U1  int    // UTF-16 columns
	EndLine int    // for multi-line spans (entry): last line (inclusive)
}

type Rendered struct {
	Text  string
	Lines []string // without terminators
	Spans []Span
}

type renderer struct {
	j     *Journal
	lines []string
	cur   strings.Builder
	spans []Span
	entry int
	post  int
}

func u16len(s string) int {
	n := 0
	for _, r := range s {
		if r >= 0x10000 {
			n += 2
		} else {
			n++
		}
	}
	return n
}

func (r *renderer) w(s string) { r.cur.WriteString(s) }

// mark writes s and records a span for it.
func (r *renderer) mark(kind, role, name, s string) {
	before := r.cur.String()
	sp := Span{Kind: kind, Role: role, Name: name, Text: s, Entry: r.entry, Post: r.post, Line: len(r.lines), EndLine: len(r.lines),
		B0: len(before), R0: utf8.RuneCountInString(before), U0: u16len(before)}
	r.cur.WriteString(s)
	sp.B1 = sp.B0 + len(s)
	sp.R1 = sp.R0 + utf8.RuneCountInString(s)
	sp.U1 = sp.U0 + u16len(s)
	r.spans = append(r.spans, sp)
}

func (r *renderer) nl() {
	r.lines = append(r.lines, r.cur.String())
	r.cur.Reset()
}

func blanks(n int) string { return strings.Repeat(" ", n) }

func (r *renderer) amount(a Amount, role string) {
	startSpans := len(r.spans)
	before := r.cur.String()
	sym := a.Sym
	if a.Quoted {
		sym = `"` + a.Sym + `"`
	}
	sign := ""
	if a.Neg {
		sign = "-"
	} else if a.Plus {
		sign = "+"
	}
	switch a.Side {
	case SideLeft:
		if a.SignPos == SignBeforeCommodity {
			r.w(sign)
			r.mark("commodity", role, a.Sym, sym)
			r.w(blanks(a.Gap))
			r.mark("number", role, "", a.Num.Text)
		} else {
			r.mark("commodity", role, a.Sym, sym)
			r.w(blanks(a.Gap))
			r.signedNumber(role, sign, a.Num.Text)
		}
	case SideRight:
		r.signedNumber(role, sign, a.Num.Text)
		r.w(blanks(a.Gap))
		r.mark("commodity", role, a.Sym, sym)
	default:
		r.signedNumber(role, sign, a.Num.Text)
	}
	// whole-amount span
	full := r.cur.String()[len(before):]
	sp := Span{Kind: "amount", Role: role, Text: full, Entry: r.entry, Post: r.post, Line: len(r.lines), EndLine: len(r.lines),
		B0: len(before), R0: utf8.RuneCountInString(before), U0: u16len(before)}
	sp.B1, sp.R1, sp.U1 = sp.B0+len(full), sp.R0+utf8.RuneCountInString(full), sp.U0+u16len(full)
	// insert before its parts so that lookups by kind stay simple
	r.spans = append(r.spans[:startSpans], append([]Span{sp}, r.spans[startSpans:]...)...)
}

// signedNumber marks the number with its sign ("number") and without ("digits").
func (r *renderer) signedNumber(role, sign, text string) {
	b := len(r.cur.String())
	r.mark("number", role, "", sign+text)
	if sign != "" {
		r.spanAt("digits", role, "", b+len(sign), text)
	}
}

func (r *renderer) comment(c *Comment, role string) {
	// ';' + text; tags located inside the text
	before := r.cur.String()
	r.mark("comment", role, "", ";"+c.Text)
	base := len(before) + 1
	search := 0
	for _, t := range c.Tags {
		idx := strings.Index(c.Text[search:], t.Name+":")
		if idx < 0 {
			continue
		}
		idx += search
		r.spanAt("tagname", role, t.Name, base+idx, t.Name+":")
		r.spanAt("tagword", role, t.Name, base+idx, t.Name)
		search = idx + len(t.Name) + 1
		if t.Value == "" {
			r.spanAt("tagvalue", role, t.Name, base+search, "")
		}
		if t.Value != "" {
			vi := strings.Index(c.Text[search:], t.Value)
			if vi >= 0 {
				r.spanAt("tagvalue", role, t.Name, base+search+vi, t.Value)
				search = search + vi + len(t.Value)
			}
		}
	}
}

// spanAt records a span for text s located at byte column b of the current line.
func (r *renderer) spanAt(kind, role, name string, b int, s string) {
	line := r.cur.String()
	sp := Span{Kind: kind, Role: role, Name: name, Text: s, Entry: r.entry, Post: r.post, Line: len(r.lines), EndLine: len(r.lines),
		B0: b, B1: b + len(s), R0: utf8.RuneCountInString(line[:b]), U0: u16len(line[:b])}
	sp.R1 = sp.R0 + utf8.RuneCountInString(s)
	sp.U1 = sp.U0 + u16len(s)
	r.spans = append(r.spans, sp)
}

func (r *renderer) tx(t *Tx) {
	r.post = -1
	gap := blanks(max(1, t.Gap))
	r.mark("date", "header", "", t.Date.String())
	if t.Date2 != nil {
		r.mark("operator", "header", "=", "=")
		r.mark("date2", "header", "", t.Date2.String())
	}
	if t.Status != "" {
		r.w(gap)
		r.mark("status", "header", "", t.Status)
	}
	if t.Code != nil {
		r.w(gap)
		r.mark("code", "header", *t.Code, "("+*t.Code+")")
	}
	switch t.HeaderKind {
	case HeaderDesc:
		r.w(gap)
		r.mark("description", "header", t.Desc, t.Desc)
	case HeaderPayeeNote:
		r.w(gap)
		r.mark("payee", "header", t.Payee, t.Payee)
		r.w(blanks(t.PipeBefore))
		r.mark("operator", "header", "|", "|")
		r.w(blanks(t.PipeAfter))
		r.mark("note", "header", t.Note, t.Note)
	}
	if t.Comment != nil {
		g := t.CommentGap
		if g <= 0 {
			g = 2
		}
		r.w(blanks(g))
		r.comment(t.Comment, "header")
	}
	r.w(t.Trail)
	r.nl()
	for i := range t.Lines {
		r.w("    ")
		r.comment(&t.Lines[i], "line")
		r.nl()
	}
	for i := range t.Postings {
		r.post = i
		p := &t.Postings[i]
		lineStart := len(r.spans)
		r.w(p.Indent)
		if p.Status != "" {
			r.mark("status", "posting", "", p.Status)
			r.w(" ")
		}
		switch p.Kind {
		case KindVirtual:
			r.w("(")
			r.mark("account", "posting", p.Account, p.Account)
			r.w(")")
		case KindBalanced:
			r.w("[")
			r.mark("account", "posting", p.Account, p.Account)
			r.w("]")
		default:
			r.mark("account", "posting", p.Account, p.Account)
		}
		if p.Amount != nil {
			r.w(p.Sep)
			r.amount(*p.Amount, "amount")
		}
		if p.Cost != nil {
			r.w(blanks(max(1, p.Cost.Before)))
			op := "@"
			if p.Cost.Total {
				op = "@@"
			}
			r.mark("operator", "cost", op, op)
			r.w(blanks(p.Cost.After))
			r.amount(p.Cost.Amount, "cost")
		}
		if p.Assert != nil {
			r.w(blanks(max(1, p.Assert.Before)))
			op := "="
			if p.Assert.Strict {
				op = "=="
			}
			r.mark("operator", "assertion", op, op)
			r.w(blanks(p.Assert.After))
			r.amount(p.Assert.Amount, "assertion")
		}
		if p.Comment != nil {
			r.w("  ")
			r.comment(p.Comment, "posting")
		}
		r.w(p.Trail)
		// whole posting span: from the first non-blank to the end of the line content
		line := r.cur.String()
		b0 := len(p.Indent)
		b1 := len(strings.TrimRight(line, " \t"))
		sp := Span{Kind: "posting", Role: "posting", Text: line[b0:b1], Entry: r.entry, Post: i, Line: len(r.lines), EndLine: len(r.lines),
			B0: b0, B1: b1, R0: utf8.RuneCountInString(line[:b0]), R1: utf8.RuneCountInString(line[:b1]), U0: u16len(line[:b0]), U1: u16len(line[:b1])}
		r.spans = append(r.spans[:lineStart], append([]Span{sp}, r.spans[lineStart:]...)...)
		r.nl()
		r.post = -1
		for k := range p.After {
			r.w(p.Indent)
			r.comment(&p.After[k], "line")
			r.nl()
		}
	}
	r.post = -1
}

func (r *renderer) entryText(e *Entry) {
	switch e.Kind {
	case EntryTx:
		r.tx(e.Tx)
	case EntryAccount:
		r.mark("directive", "directive", "account", "account")
		r.w(" ")
		r.mark("account", "directive", e.Account, e.Account)
		if e.Comment != nil {
			r.w("  ")
			r.comment(e.Comment, "directive")
		}
		r.w(e.Trail)
		r.nl()
		if e.SubComment != "" {
			r.w("    ")
			c := Comment{Text: e.SubComment}
			r.comment(&c, "line")
			r.nl()
		}
	case EntryCommodity:
		r.mark("directive", "directive", "commodity", "commodity")
		r.w(" ")
		r.formatSpan(e)
		r.w(e.Trail)
		r.nl()
	case EntryCommodityFmt:
		r.mark("directive", "directive", "commodity", "commodity")
		r.w(" ")
		sym := e.Sym
		if e.Quoted {
			sym = `"` + sym + `"`
		}
		r.mark("commodity", "directive", e.Sym, sym)
		r.w(e.Trail)
		r.nl()
		r.w("    ")
		b := len(r.cur.String())
		r.w("format ")
		r.formatSpan(e)
		// the sub-directive line is one free-text lexeme
		r.spanAt("text", "format", "", b, "format "+e.Format)
		if e.FmtComment != "" {
			r.w(" ")
			c := Comment{Text: e.FmtComment}
			r.comment(&c, "line")
		}
		r.nl()
		if e.SubNote != "" {
			r.w("    ")
			r.mark("text", "subdirective", "", "note "+e.SubNote)
			r.nl()
		}
	case EntryInclude:
		r.mark("directive", "directive", "include", "include")
		r.w(" ")
		r.mark("includepath", "directive", e.Path, e.Path)
		if e.Comment != nil {
			r.w("  ")
			r.comment(e.Comment, "directive")
		}
		r.w(e.Trail)
		r.nl()
	case EntryPrice:
		r.mark("directive", "directive", "P", "P")
		r.w(" ")
		r.mark("date", "directive", "", e.PDate.String())
		r.w(" ")
		sym := e.Sym
		if e.Quoted {
			sym = `"` + sym + `"`
		}
		r.mark("commodity", "directive", e.Sym, sym)
		r.w(" ")
		r.amount(e.Price, "price")
		r.w(e.Trail)
		r.nl()
	case EntryYear:
		kw := e.YearKeyword
		if kw == "" {
			kw = "Y"
		}
		r.mark("directive", "directive", kw, kw)
		r.w(" ")
		r.mark("number", "directive", "", fmt.Sprint(e.Year))
		r.w(e.Trail)
		r.nl()
	case EntryDefaultCommodity:
		r.mark("directive", "directive", "D", "D")
		r.w(" ")
		r.formatSpan(e)
		r.w(e.Trail)
		r.nl()
	case EntryComment:
		mk := e.CommentMark
		if mk == "" {
			mk = ";"
		}
		if mk == ";" {
			r.comment(e.Comment, "line")
		} else {
			r.mark("comment", "line", "", mk+e.Comment.Text)
		}
		r.w(e.Trail)
		r.nl()
	}
}

// formatSpan writes e.Format and marks the commodity inside it.
func (r *renderer) formatSpan(e *Entry) {
	sym := e.Sym
	if e.Quoted {
		sym = `"` + sym + `"`
	}
	b := len(r.cur.String())
	r.mark("format", "format", e.Sym, e.Format)
	if i := strings.Index(e.Format, sym); i >= 0 && sym != "" {
		r.spanAt("commodity", "format", e.Sym, b+i, sym)
	}
	// the number inside the format is a number lexeme too
	rest := strings.Replace(e.Format, sym, strings.Repeat("\x00", len(sym)), 1)
	first, last := -1, -1
	for i := 0; i < len(rest); i++ {
		if rest[i] >= '0' && rest[i] <= '9' {
			if first < 0 {
				first = i
			}
			last = i
		}
	}
	if first >= 0 {
		r.spanAt("number", "format", "", b+first, e.Format[first:last+1])
	}
}

// Render renders the journal and its position map.
func (j *Journal) Render() *Rendered {
	r := &renderer{j: j, post: -1}
	for i := range j.Entries {
		r.entry = i
		if i > 0 {
			for k := 0; k < j.Blank; k++ {
				r.nl()
			}
		}
		first := len(r.lines)
		startSpans := len(r.spans)
		r.entryText(&j.Entries[i])
		last := len(r.lines) - 1
		sp := Span{Kind: "entry", Entry: i, Post: -1, Line: first, EndLine: last, B0: 0, R0: 0, U0: 0,
			B1: len(r.lines[last]), R1: utf8.RuneCountInString(r.lines[last]), U1: u16len(r.lines[last])}
		sp.Text = strings.Join(r.lines[first:last+1], "\n")
		r.spans = append(r.spans[:startSpans], append([]Span{sp}, r.spans[startSpans:]...)...)
	}
	le := j.LineEnd
	if le == "" {
		le = "\n"
	}
	text := strings.Join(r.lines, le)
	if j.FinalNewline && len(r.lines) > 0 {
		text += le
	}
	return &Rendered{Text: text, Lines: r.lines, Spans: r.spans}
}

// Find returns the spans matching kind (and entry/post when >= -1... use -2 for any).
func (rd *Rendered) Find(kind string, entry, post int) []Span {
	var out []Span
	for _, s := range rd.Spans {
		if s.Kind == kind && (entry == -2 || s.Entry == entry) && (post == -2 || s.Post == post) {
			out = append(out, s)
		}
	}
	return out
}

func max(a, b int) int {
	if a > b {
		return a
	}
	return b
}
