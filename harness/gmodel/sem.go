package gmodel

import (
	"fmt"
	"math/big"
	"sort"
	"strings"
)

// Field is one semantic fact the journal was written from.
type Field struct {
	Path string // e.g. tx[0].p[1].amount.quantity
	Val  string
}

func ratStr(r *big.Rat) string { return r.RatString() }

func amountFields(prefix string, a *Amount, out *[]Field) {
	if a == nil {
		*out = append(*out, Field{prefix, "none"})
		return
	}
	*out = append(*out, Field{prefix, "present"})
	*out = append(*out, Field{prefix + ".quantity", ratStr(a.Value())})
	*out = append(*out, Field{prefix + ".commodity", a.Sym})
	if a.Sym != "" {
		side := "left"
		if a.Side == SideRight {
			side = "right"
		}
		*out = append(*out, Field{prefix + ".side", side})
	}
}

func tagList(cs ...*Comment) string {
	var ts []string
	for _, c := range cs {
		if c == nil {
			continue
		}
		for _, t := range c.Tags {
			ts = append(ts, t.Name+"="+t.Value)
		}
	}
	sort.Strings(ts)
	return strings.Join(ts, ",")
}

// Fields lists the semantic content of the journal in a fixed order.
func (j *Journal) Fields() []Field {
	var out []Field
	ntx, ndir, ninc, ncom := 0, 0, 0, 0
	year := 0
	for _, e := range j.Entries {
		switch e.Kind {
		case EntryTx:
			t := e.Tx
			p := fmt.Sprintf("tx[%d]", ntx)
			ntx++
			y := t.Date.Y
			if t.Date.Partial {
				y = year
			}
			out = append(out, Field{p + ".date", fmt.Sprintf("%d-%d-%d", y, t.Date.M, t.Date.D)})
			if t.Date2 != nil {
				out = append(out, Field{p + ".date2", fmt.Sprintf("%d-%d-%d", t.Date2.Y, t.Date2.M, t.Date2.D)})
			} else {
				out = append(out, Field{p + ".date2", "none"})
			}
			out = append(out, Field{p + ".status", t.Status})
			code := ""
			if t.Code != nil {
				code = *t.Code
			}
			out = append(out, Field{p + ".code", code})
			switch t.HeaderKind {
			case HeaderDesc:
				out = append(out, Field{p + ".description", t.Desc})
			case HeaderPayeeNote:
				out = append(out, Field{p + ".payee", t.Payee}, Field{p + ".note", t.Note})
			default:
				out = append(out, Field{p + ".description", ""})
			}
			cs := []*Comment{t.Comment}
			for i := range t.Lines {
				cs = append(cs, &t.Lines[i])
			}
			// comment lines between and after the postings are comments of the transaction
			for pi := range t.Postings {
				for k := range t.Postings[pi].After {
					cs = append(cs, &t.Postings[pi].After[k])
				}
			}
			var texts []string
			for _, c := range cs {
				if c != nil {
					texts = append(texts, strings.TrimSpace(c.Text))
				}
			}
			out = append(out, Field{p + ".comments", strings.Join(texts, " | ")})
			out = append(out, Field{p + ".tags", tagList(cs...)})
			out = append(out, Field{p + ".npostings", fmt.Sprint(len(t.Postings))})
			for k := range t.Postings {
				ps := &t.Postings[k]
				pp := fmt.Sprintf("%s.p[%d]", p, k)
				out = append(out, Field{pp + ".status", ps.Status})
				out = append(out, Field{pp + ".kind", []string{"ordinary", "virtual", "balanced"}[ps.Kind]})
				out = append(out, Field{pp + ".account", ps.Account})
				amountFields(pp+".amount", ps.Amount, &out)
				if ps.Cost != nil {
					kind := "unit"
					if ps.Cost.Total {
						kind = "total"
					}
					out = append(out, Field{pp + ".cost", kind})
					amountFields(pp+".cost.amount", &ps.Cost.Amount, &out)
				} else {
					out = append(out, Field{pp + ".cost", "none"})
				}
				if ps.Assert != nil {
					kind := "plain"
					if ps.Assert.Strict {
						kind = "strict"
					}
					out = append(out, Field{pp + ".assertion", kind})
					amountFields(pp+".assertion.amount", &ps.Assert.Amount, &out)
				} else {
					out = append(out, Field{pp + ".assertion", "none"})
				}
				if ps.Comment != nil {
					out = append(out, Field{pp + ".comment", strings.TrimSpace(ps.Comment.Text)})
				} else {
					out = append(out, Field{pp + ".comment", ""})
				}
				out = append(out, Field{pp + ".tags", tagList(ps.Comment)})
			}
		case EntryAccount:
			p := fmt.Sprintf("dir[%d]", ndir)
			ndir++
			out = append(out, Field{p + ".kind", "account"}, Field{p + ".account", e.Account})
			out = append(out, Field{p + ".tags", tagList(e.Comment)})
		case EntryCommodity, EntryCommodityFmt:
			p := fmt.Sprintf("dir[%d]", ndir)
			ndir++
			out = append(out, Field{p + ".kind", "commodity"}, Field{p + ".symbol", e.Sym}, Field{p + ".format", e.Format})
		case EntryInclude:
			p := fmt.Sprintf("include[%d]", ninc)
			ninc++
			out = append(out, Field{p + ".path", e.Path})
		case EntryPrice:
			p := fmt.Sprintf("dir[%d]", ndir)
			ndir++
			out = append(out, Field{p + ".kind", "price"}, Field{p + ".date", fmt.Sprintf("%d-%d-%d", e.PDate.Y, e.PDate.M, e.PDate.D)}, Field{p + ".symbol", e.Sym})
			pr := e.Price
			amountFields(p+".price", &pr, &out)
		case EntryYear:
			p := fmt.Sprintf("dir[%d]", ndir)
			ndir++
			year = e.Year
			out = append(out, Field{p + ".kind", "year"}, Field{p + ".year", fmt.Sprint(e.Year)})
		case EntryDefaultCommodity:
			p := fmt.Sprintf("dir[%d]", ndir)
			ndir++
			out = append(out, Field{p + ".kind", "default-commodity"}, Field{p + ".symbol", e.Sym}, Field{p + ".format", e.Format})
		case EntryComment:
			p := fmt.Sprintf("comment[%d]", ncom)
			ncom++
			mk := e.CommentMark
			if mk == "" {
				mk = ";"
			}
			if mk == ";" {
				out = append(out, Field{p + ".text", strings.TrimSpace(e.Comment.Text)})
			} else {
				out = append(out, Field{p + ".text", strings.TrimSpace(e.Comment.Text)})
			}
		}
	}
	out = append(out, Field{"count.tx", fmt.Sprint(ntx)}, Field{"count.directives", fmt.Sprint(ndir)}, Field{"count.includes", fmt.Sprint(ninc)}, Field{"count.comments", fmt.Sprint(ncom)})
	return out
}

// GenericPath strips indexes from a field path (tx[0].p[1].amount -> tx.p.amount).
func GenericPath(p string) string {
	var b strings.Builder
	skip := false
	for _, r := range p {
		switch {
		case r == '[':
			skip = true
		case r == ']':
			skip = false
		case !skip:
			b.WriteRune(r)
		}
	}
	return b.String()
}
