// Package vorder owns map iteration order. In the "order" build flavour every
// `for ... range m` over a map is rewritten to range over vorder.Map(m), and
// vsync.Map.Range asks PermAny. Each dynamic execution of such a range is a
// numbered choice point; the explorer decides, per choice point, which
// permutation of the canonically sorted keys is used. The Go specification
// leaves the order unspecified, so every permutation is a legal behaviour.
package vorder

import (
	"fmt"
	"iter"
	"runtime"
	"sort"
)

// ChoicePoint describes one dynamic map range seen during an execution.
type ChoicePoint struct {
	Site string // file:line of the range statement
	N    int    // number of keys
	Alt  int    // alternative used (0 = sorted order)
}

var (
	active bool
	plan   map[int]int // choice point index -> alternative
	points []ChoicePoint
)

func Active() bool { return active }

// Begin starts recording; plan maps choice-point index to alternative number.
func Begin(p map[int]int) {
	active = true
	plan = p
	points = points[:0]
}

// End stops recording and returns the choice points met.
func End() []ChoicePoint {
	active = false
	out := make([]ChoicePoint, len(points))
	copy(out, points)
	return out
}

// Alts is the number of alternatives (including the default 0) explored for a
// range over n keys: all n! permutations for n <= 4; for larger n the identity,
// the n-1 non-trivial rotations, the reversal and the n-1 adjacent
// transpositions.
func Alts(n int) int {
	switch {
	case n <= 1:
		return 1
	case n == 2:
		return 2
	case n == 3:
		return 6
	case n == 4:
		return 24
	}
	return 1 + (n - 1) + 1 + (n - 1)
}

// Perm returns the index permutation for alternative alt of n keys.
func Perm(n, alt int) []int {
	p := make([]int, n)
	for i := range p {
		p[i] = i
	}
	if alt <= 0 || n <= 1 {
		return p
	}
	if n <= 4 {
		// alt-th permutation in lexicographic order (factorial number system)
		avail := append([]int(nil), p...)
		f := 1
		for i := 2; i < n; i++ {
			f *= i
		}
		k := alt
		for i := 0; i < n; i++ {
			d := k / f
			k %= f
			p[i] = avail[d]
			avail = append(avail[:d], avail[d+1:]...)
			if n-1-i > 0 {
				f /= (n - 1 - i)
			}
		}
		return p
	}
	switch {
	case alt <= n-1: // rotation by alt
		for i := range p {
			p[i] = (i + alt) % n
		}
	case alt == n: // reversal
		for i := range p {
			p[i] = n - 1 - i
		}
	default: // adjacent transposition
		j := alt - n - 1
		if j >= 0 && j+1 < n {
			p[j], p[j+1] = p[j+1], p[j]
		}
	}
	return p
}

func site() string {
	// caller of Map / Range: skip site(), choose(), Map's iterator closure...
	// We record the first frame outside this package and vsync.
	pcs := make([]uintptr, 12)
	n := runtime.Callers(2, pcs)
	frames := runtime.CallersFrames(pcs[:n])
	for {
		fr, more := frames.Next()
		if fr.Function != "" && !contains(fr.File, "/verifx/vorder/") && !contains(fr.File, "/verifx/vsync/") &&
			!contains(fr.Function, "/verifx/vorder") && !contains(fr.Function, "/verifx/vsync") {
			return fmt.Sprintf("%s:%d", trimPath(fr.File), fr.Line)
		}
		if !more {
			break
		}
	}
	return "?"
}

func contains(s, sub string) bool {
	for i := 0; i+len(sub) <= len(s); i++ {
		if s[i:i+len(sub)] == sub {
			return true
		}
	}
	return false
}

func trimPath(f string) string {
	const marker = "/internal/"
	for i := 0; i+len(marker) <= len(f); i++ {
		if f[i:i+len(marker)] == marker {
			return f[i+1:]
		}
	}
	return f
}

func choose(n int) []int {
	idx := len(points)
	alt := 0
	if a, ok := plan[idx]; ok {
		alt = a
	}
	if alt >= Alts(n) {
		alt = 0
	}
	points = append(points, ChoicePoint{Site: site(), N: n, Alt: alt})
	return Perm(n, alt)
}

// PermAny returns the visiting order (as indexes into the canonically sorted
// keys) for a sync.Map.Range; keys is sorted in place.
func PermAny(keys []any) []int {
	sort.SliceStable(keys, func(i, j int) bool { return fmt.Sprint(keys[i]) < fmt.Sprint(keys[j]) })
	if !active {
		p := make([]int, len(keys))
		for i := range p {
			p[i] = i
		}
		return p
	}
	return choose(len(keys))
}

// Map returns an iterator over m in explorer-chosen order. Keys are
// snapshotted when the loop starts; a key deleted during the loop is skipped,
// as the language allows.
func Map[M ~map[K]V, K comparable, V any](m M) iter.Seq2[K, V] {
	return func(yield func(K, V) bool) {
		if !active {
			for k, v := range m {
				if !yield(k, v) {
					return
				}
			}
			return
		}
		keys := make([]K, 0, len(m))
		for k := range m {
			keys = append(keys, k)
		}
		sort.SliceStable(keys, func(i, j int) bool { return less(keys[i], keys[j]) })
		for _, i := range choose(len(keys)) {
			v, ok := m[keys[i]]
			if !ok {
				continue
			}
			if !yield(keys[i], v) {
				return
			}
		}
	}
}

func less[K comparable](a, b K) bool {
	switch x := any(a).(type) {
	case string:
		return x < any(b).(string)
	case int:
		return x < any(b).(int)
	}
	return fmt.Sprint(a) < fmt.Sprint(b)
}
