// Package wire drives one server.Server through exactly the seam cmd/hledger-lsp
// uses: protocol.ServerHandler(newServerDispatcher(srv), nil), called with
// jsonrpc2 requests whose params are raw JSON, and a capturing Replier.
package wire

import (
	"context"
	"fmt"
	"runtime/debug"
	"strings"
	"sync"

	"github.com/segmentio/encoding/json"
	"go.lsp.dev/jsonrpc2"
	"go.lsp.dev/protocol"

	"github.com/juev/hledger-lsp/internal/server"
	"github.com/juev/hledger-lsp/internal/verifx/vsched"
)

// NewDispatcher is set by the worker's main package (the dispatcher type lives
// in package main of cmd/hledger-lsp and is linked into the worker).
var NewDispatcher func(srv *server.Server) protocol.Server

// Published is one captured PublishDiagnostics notification.
type Published struct {
	URI  string
	JSON string // params as the client would receive them
}

// Client is the stub protocol.Client.
type Client struct {
	mu        sync.Mutex // mirrors the write mutex of the real jsonrpc2 stream
	Log       []Published
	Config    string // JSON text answered to workspace/configuration (array element); "" = error
	ConfigErr bool
	// ConfigQueue: answers for the next pulls, first in first out (when empty,
	// Config is the answer)
	ConfigQueue []string
	NConfig     int
	Messages    []string
}

func (c *Client) Progress(context.Context, *protocol.ProgressParams) error { return nil }
func (c *Client) WorkDoneProgressCreate(context.Context, *protocol.WorkDoneProgressCreateParams) error {
	return nil
}
func (c *Client) LogMessage(_ context.Context, p *protocol.LogMessageParams) error {
	vsched.EnterClient()
	defer vsched.LeaveClient()
	vsched.Point(vsched.KClient)
	c.mu.Lock()
	c.Messages = append(c.Messages, p.Message)
	c.mu.Unlock()
	return nil
}
func (c *Client) PublishDiagnostics(_ context.Context, p *protocol.PublishDiagnosticsParams) error {
	vsched.EnterClient()
	defer vsched.LeaveClient()
	vsched.Point(vsched.KClient)
	b, err := json.Marshal(p)
	if err != nil {
		return err
	}
	c.mu.Lock()
	c.Log = append(c.Log, Published{URI: string(p.URI), JSON: string(b)})
	if len(c.Log) > 4096 {
		// long-lived sessions (input enumerations) only ever ask for the last
		// notification; keep the log bounded
		c.Log = append(c.Log[:0:0], c.Log[len(c.Log)-1024:]...)
	}
	c.mu.Unlock()
	return nil
}
func (c *Client) ShowMessage(context.Context, *protocol.ShowMessageParams) error { return nil }
func (c *Client) ShowMessageRequest(context.Context, *protocol.ShowMessageRequestParams) (*protocol.MessageActionItem, error) {
	return nil, nil
}
func (c *Client) Telemetry(context.Context, interface{}) error { return nil }
func (c *Client) RegisterCapability(context.Context, *protocol.RegistrationParams) error {
	return nil
}
func (c *Client) UnregisterCapability(context.Context, *protocol.UnregistrationParams) error {
	return nil
}
func (c *Client) ApplyEdit(context.Context, *protocol.ApplyWorkspaceEditParams) (bool, error) {
	return false, nil
}
func (c *Client) Configuration(_ context.Context, _ *protocol.ConfigurationParams) ([]interface{}, error) {
	vsched.EnterClient()
	defer vsched.LeaveClient()
	vsched.Point(vsched.KClient)
	c.mu.Lock()
	cfg := c.Config
	if len(c.ConfigQueue) > 0 {
		// answers are handed out in the order of the requests: the k-th pull is
		// answered with the settings of the k-th change notification
		cfg = c.ConfigQueue[0]
		c.ConfigQueue = c.ConfigQueue[1:]
	}
	c.NConfig++
	c.mu.Unlock()
	if c.ConfigErr || cfg == "" {
		return nil, fmt.Errorf("configuration unavailable")
	}
	if cfg == "EMPTY" {
		return []interface{}{}, nil // a client that answers with no items
	}
	var out []interface{}
	if err := json.Unmarshal([]byte("["+cfg+"]"), &out); err != nil {
		return nil, err
	}
	return out, nil
}
func (c *Client) WorkspaceFolders(context.Context) ([]protocol.WorkspaceFolder, error) {
	return nil, nil
}

// QueueConfig appends an answer for a later pull.
func (c *Client) QueueConfig(js string) {
	c.mu.Lock()
	c.ConfigQueue = append(c.ConfigQueue, js)
	c.mu.Unlock()
}

// SetConfig changes what the client answers to workspace/configuration.
func (c *Client) SetConfig(js string) {
	c.mu.Lock()
	c.Config = js
	c.mu.Unlock()
}

// Last returns the last published diagnostics JSON for uri ("" if none).
func (c *Client) Last(uri string) string {
	c.mu.Lock()
	defer c.mu.Unlock()
	for i := len(c.Log) - 1; i >= 0; i-- {
		if c.Log[i].URI == uri {
			return c.Log[i].JSON
		}
	}
	return ""
}

func (c *Client) Count() int {
	c.mu.Lock()
	defer c.mu.Unlock()
	return len(c.Log)
}

// Session is one server instance behind the wire seam.
type Session struct {
	Srv    *server.Server
	Client *Client
	h      jsonrpc2.Handler
	nextID int32

	lastResultID map[string]string
}

func New() *Session {
	srv := server.NewServer()
	cl := &Client{}
	srv.SetClient(cl)
	s := &Session{Srv: srv, Client: cl}
	s.h = protocol.ServerHandler(NewDispatcher(srv), nil)
	return s
}

// Reply is the outcome of one message.
type Reply struct {
	Result string // JSON of the result ("null" for none)
	Err    string // error text if the server replied with an error
	Panic  string // non-empty if the handler panicked (value + trimmed stack)
}

func (r Reply) OK() bool { return r.Err == "" && r.Panic == "" }

func (s *Session) handle(req jsonrpc2.Request, isCall bool, id jsonrpc2.ID) (out Reply) {
	defer func() {
		if p := recover(); p != nil {
			if isAbort(p) {
				panic(p)
			}
			out.Panic = fmt.Sprintf("%v\n%s", p, trimStack(string(debug.Stack())))
		}
	}()
	replied := false
	replier := func(_ context.Context, result interface{}, err error) error {
		replied = true
		if !isCall {
			if err != nil {
				out.Err = err.Error()
			}
			return nil
		}
		resp, merr := jsonrpc2.NewResponse(id, result, err)
		if merr != nil {
			out.Err = "marshal: " + merr.Error()
			return nil
		}
		if resp.Err() != nil {
			out.Err = resp.Err().Error()
		}
		out.Result = string(resp.Result())
		return nil
	}
	if err := s.h(context.Background(), replier, req); err != nil && out.Err == "" {
		out.Err = err.Error()
	}
	_ = replied
	if out.Result == "" {
		out.Result = "null"
	}
	return out
}

func isAbort(p any) bool {
	return strings.Contains(fmt.Sprintf("%T", p), "abortSentinel")
}

func trimStack(st string) string {
	lines := strings.Split(st, "\n")
	var keep []string
	for i := 0; i < len(lines); i++ {
		l := lines[i]
		if strings.Contains(l, "hledger-lsp/internal/") && !strings.Contains(l, "/verifx/") && strings.HasPrefix(l, "\t") {
			if i > 0 {
				keep = append(keep, strings.TrimSpace(lines[i-1]))
			}
			keep = append(keep, strings.TrimSpace(l))
			if len(keep) >= 12 {
				break
			}
		}
	}
	return strings.Join(keep, "\n")
}

// Call sends a request with raw JSON params.
func (s *Session) Call(method, params string) Reply {
	s.nextID++
	id := jsonrpc2.NewNumberID(s.nextID)
	req, err := jsonrpc2.NewCall(id, method, json.RawMessage(params))
	if err != nil {
		return Reply{Err: "harness: " + err.Error()}
	}
	return s.handle(req, true, id)
}

// Notify sends a notification with raw JSON params.
func (s *Session) Notify(method, params string) Reply {
	req, err := jsonrpc2.NewNotification(method, json.RawMessage(params))
	if err != nil {
		return Reply{Err: "harness: " + err.Error()}
	}
	return s.handle(req, false, jsonrpc2.ID{})
}

// Q quotes a Go string as JSON.
func Q(s string) string {
	b, _ := json.Marshal(s)
	return string(b)
}

func URI(path string) string { return "file://" + path }

// InitOpts for Initialize.
type InitOpts struct {
	Root          string // workspace root path ("" = none)
	Options       string // initializationOptions JSON ("" = absent)
	Configuration bool   // client advertises workspace.configuration
}

func (s *Session) Initialize(o InitOpts) Reply {
	var b strings.Builder
	b.WriteString(`{"processId":1,"capabilities":{"workspace":{"configuration":`)
	if o.Configuration {
		b.WriteString("true")
	} else {
		b.WriteString("false")
	}
	b.WriteString(`}}`)
	if o.Root != "" {
		b.WriteString(`,"rootUri":` + Q(URI(o.Root)))
		b.WriteString(`,"workspaceFolders":[{"uri":` + Q(URI(o.Root)) + `,"name":"w"}]`)
	}
	if o.Options != "" {
		b.WriteString(`,"initializationOptions":` + o.Options)
	}
	b.WriteString("}")
	return s.Call("initialize", b.String())
}

func (s *Session) Initialized() Reply { return s.Notify("initialized", "{}") }

func (s *Session) DidOpen(uri, text string) Reply {
	return s.Notify("textDocument/didOpen", `{"textDocument":{"uri":`+Q(uri)+`,"languageId":"hledger","version":1,"text":`+Q(text)+`}}`)
}

func (s *Session) DidChangeFull(uri, text string, version int) Reply {
	return s.Notify("textDocument/didChange", fmt.Sprintf(`{"textDocument":{"uri":%s,"version":%d},"contentChanges":[{"text":%s}]}`, Q(uri), version, Q(text)))
}

func (s *Session) DidClose(uri string) Reply {
	return s.Notify("textDocument/didClose", `{"textDocument":{"uri":`+Q(uri)+`}}`)
}

func (s *Session) DidSave(uri string) Reply {
	return s.Notify("textDocument/didSave", `{"textDocument":{"uri":`+Q(uri)+`}}`)
}

func DocPos(uri string, line, char int) string {
	return fmt.Sprintf(`{"textDocument":{"uri":%s},"position":{"line":%d,"character":%d}}`, Q(uri), line, char)
}

func Doc(uri string) string { return `{"textDocument":{"uri":` + Q(uri) + `}}` }
