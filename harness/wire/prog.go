package wire

import (
	"fmt"
	"os"
	"path/filepath"
	"regexp"
)

// Msg is one client message of a scenario program.
type Msg struct {
	Op   string `json:"op"`
	Doc  string `json:"doc,omitempty"`  // file name relative to the scenario directory
	Text string `json:"text,omitempty"` // open/change text, config payload, query, new name
	Line int    `json:"line,omitempty"`
	Char int    `json:"char,omitempty"`
	Arg  string `json:"arg,omitempty"`
}

func (m Msg) String() string {
	switch m.Op {
	case "open", "change":
		return fmt.Sprintf("%s(%s,%dB)", m.Op, m.Doc, len(m.Text))
	case "config", "configq":
		return m.Op + "(" + m.Text + ")"
	}
	if m.Doc != "" {
		return fmt.Sprintf("%s(%s@%d:%d)", m.Op, m.Doc, m.Line, m.Char)
	}
	return m.Op
}

// IsRequest reports whether the message expects a response.
func (m Msg) IsRequest() bool {
	switch m.Op {
	case "open", "change", "close", "save", "savefile", "initialized", "config", "configq":
		return false
	}
	return true
}

var resultIDre = regexp.MustCompile(`"resultId":"([^"]*)"`)

// Do sends one message. dir is the scenario directory (documents are files in it).
func (s *Session) Do(m Msg, dir string) Reply {
	uri := ""
	if m.Doc != "" {
		uri = URI(filepath.Join(dir, m.Doc))
	}
	switch m.Op {
	case "initialized":
		return s.Initialized()
	case "open":
		return s.DidOpen(uri, m.Text)
	case "change":
		return s.DidChangeFull(uri, m.Text, 2)
	case "close":
		return s.DidClose(uri)
	case "save":
		return s.DidSave(uri)
	case "config":
		s.Client.SetConfig(m.Text)
		return s.Notify("workspace/didChangeConfiguration", `{"settings":null}`)
	case "savefile":
		// the file gets new content on disk and the server is told (didSave)
		_ = os.WriteFile(filepath.Join(dir, m.Doc), []byte(m.Text), 0o644)
		return s.DidSave(uri)
	case "diagnostics":
		// not a message: the diagnostics published last for the document, as a response
		return Reply{Result: s.Client.Last(uri)}
	case "configq":
		// the answer is bound to this notification's pull (k-th pull, k-th answer)
		s.Client.QueueConfig(m.Text)
		return s.Notify("workspace/didChangeConfiguration", `{"settings":null}`)
	case "completion":
		return s.Call("textDocument/completion", DocPos(uri, m.Line, m.Char))
	case "hover":
		return s.Call("textDocument/hover", DocPos(uri, m.Line, m.Char))
	case "definition":
		return s.Call("textDocument/definition", DocPos(uri, m.Line, m.Char))
	case "references":
		return s.Call("textDocument/references", fmt.Sprintf(`{"textDocument":{"uri":%s},"position":{"line":%d,"character":%d},"context":{"includeDeclaration":true}}`, Q(uri), m.Line, m.Char))
	case "prepareRename":
		return s.Call("textDocument/prepareRename", DocPos(uri, m.Line, m.Char))
	case "rename":
		return s.Call("textDocument/rename", fmt.Sprintf(`{"textDocument":{"uri":%s},"position":{"line":%d,"character":%d},"newName":%s}`, Q(uri), m.Line, m.Char, Q(m.Text)))
	case "formatting":
		return s.Call("textDocument/formatting", `{"textDocument":{"uri":`+Q(uri)+`},"options":{"tabSize":4,"insertSpaces":true}}`)
	case "symbols":
		return s.Call("textDocument/documentSymbol", Doc(uri))
	case "wsymbol":
		return s.Call("workspace/symbol", `{"query":`+Q(m.Text)+`}`)
	case "folding":
		return s.Call("textDocument/foldingRange", Doc(uri))
	case "links":
		return s.Call("textDocument/documentLink", Doc(uri))
	case "semfull":
		r := s.Call("textDocument/semanticTokens/full", Doc(uri))
		s.noteResultID(uri, r)
		return r
	case "semdelta":
		prev := m.Arg
		if prev == "last" {
			prev = s.lastResultID[uri]
		}
		r := s.Call("textDocument/semanticTokens/full/delta", `{"textDocument":{"uri":`+Q(uri)+`},"previousResultId":`+Q(prev)+`}`)
		s.noteResultID(uri, r)
		return r
	case "semrange":
		return s.Call("textDocument/semanticTokens/range", fmt.Sprintf(`{"textDocument":{"uri":%s},"range":{"start":{"line":%d,"character":0},"end":{"line":%d,"character":0}}}`, Q(uri), m.Line, m.Char))
	case "inline":
		return s.Call("textDocument/inlineCompletion", DocPos(uri, m.Line, m.Char))
	case "codeaction":
		return s.Call("textDocument/codeAction", fmt.Sprintf(`{"textDocument":{"uri":%s},"range":{"start":{"line":0,"character":0},"end":{"line":0,"character":0}},"context":{"diagnostics":[]}}`, Q(uri)))
	}
	return Reply{Err: "harness: unknown op " + m.Op}
}

func (s *Session) noteResultID(uri string, r Reply) {
	if s.lastResultID == nil {
		s.lastResultID = map[string]string{}
	}
	if m := resultIDre.FindStringSubmatch(r.Result); m != nil {
		s.lastResultID[uri] = m[1]
	}
}
