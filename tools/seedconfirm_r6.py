#!/usr/bin/env python3
"""usage: seedconfirm_r6.py <prop id>  -- confirm /tmp/r6_<id>/SEED and import as /verif/seeded/<id>/12"""
import json, os, shutil, subprocess, sys, glob
pid=sys.argv[1]; wt='/tmp/r6_'+pid; src=wt+'/SEED'
ENV=dict(os.environ,GOFLAGS='-mod=mod',GOPROXY='off')
def sh(c,timeout=1200):
    p=subprocess.run(c,shell=True,cwd=wt,env=ENV,stdout=subprocess.PIPE,stderr=subprocess.STDOUT,text=True,timeout=timeout); return p.returncode,p.stdout
notes=json.load(open(src+'/notes.json'))
demo=notes['demo']; dest=demo['copy_to']; 
demofile=[f for f in glob.glob(src+'/*_test.go')][0]
shutil.copy(src+'/patch.diff','/tmp/r6_%s_patch.diff'%pid); shutil.copy(demofile,'/tmp/r6_%s_demo_test.go'%pid)
sh('git checkout -- . && git clean -fdq -- internal cmd')
rc,out=sh('git status --porcelain'); print('status after reset:',out.strip())
rc,out=sh('git apply --check /tmp/r6_%s_patch.diff'%pid)
if rc: sys.exit('patch does not apply: '+out)
sh('git apply /tmp/r6_%s_patch.diff'%pid)
log=[]
rc,out=sh('go build ./... && go test -vet=off -count=1 ./...')
if rc:
    rc,out=sh('go build ./... && go test -vet=off -count=1 ./...')
log.append('with change: go build ./... && go test -count=1 ./... -> exit %d'%rc)
if rc: print(out[-3000:]); sh('git checkout -- .'); sys.exit('suite fails')
shutil.copy('/tmp/r6_%s_demo_test.go'%pid, os.path.join(wt,dest))
cmd=demo['cmd']
rc1,out1=sh(cmd); log.append('with change: %s -> exit %d'%(cmd,rc1))
sh('git checkout -- .')
rc2,out2=sh(cmd); log.append('without change: %s -> exit %d'%(cmd,rc2))
os.remove(os.path.join(wt,dest))
print('\n'.join(log))
fails=[l for l in out1.splitlines() if 'FAIL' in l][:6]
if rc1==0 or '[build failed]' in out1 or '[setup failed]' in out1 or not fails: print(out1[-2000:]); sys.exit('demo does not fail with change')
if rc2!=0: print(out2[-2000:]); sys.exit('demo does not pass clean')
dst='/verif/seeded/%s/12'%pid; os.makedirs(dst,exist_ok=True)
shutil.copy('/tmp/r6_%s_patch.diff'%pid,dst+'/patch.diff'); shutil.copy('/tmp/r6_%s_demo_test.go'%pid,dst+'/demo_test.go')
meta={'property':pid,'summary':notes.get('summary'),'needs':notes.get('needs'),'files':notes.get('files'),
 'demo':{'copy_to':dest,'tags':'seeddemo','run':demo.get('run'),'cmd':cmd},'confirmed':log,'demo_failure':fails,'round':6}
json.dump(meta,open(dst+'/meta.json','w'),indent=1)
print('imported',dst)
