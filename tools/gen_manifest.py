#!/usr/bin/env python3
"""Generates /verif/MANIFEST.json from the table below (kept next to the checks so that
the manifest never drifts from what is built)."""
import json, os, sys

ALL = ["C%02d" % i for i in range(1, 21)]

# id -> (category, technique, level text, level note, design ref)
CLAIMED = {
 "C13": ("model_checking",
   "stateless preemption-bounded DFS over all schedules of the real server's goroutines under a controlled scheduler (hand-written explorer)",
   "Every schedule of the burst scenarios (didOpen + 1..4 didChange on one document, 2+2/2+3 on two documents, with and without workspace root / included file) within preemption bound 2 (quick; 3 thorough) is executed on the real server; bound 0 alone already contains every order in which the background analyses can publish. After each execution the last PublishDiagnostics per document is compared with a fresh server's diagnostics for the final text.",
   "Scheduling points are the sync.Map/RWMutex/Mutex operations, goroutine start/end and client calls of the instrumented tree (import of sync renamed to a shim, go statements routed through the scheduler); message handling is serial as in main.go. Bursts longer than 5 messages and schedules needing more preemptions than the bound are not covered.",
   "DESIGN.md §3.3, §5 C13"),
 "C14": ("model_checking",
   "stateless preemption-bounded DFS over all schedules of the real server under a controlled scheduler, built with -race and race-invisible hand-offs so that every explored schedule is also a race-detector run",
   "Five scenario programs (open/complete/change/complete; workspace with included file; initialized + two configuration changes; two documents with semantic tokens; open/close/reopen), each a serial stream of 8-11 notifications and requests with 1-3 background goroutines, are executed under every schedule within preemption bound 1-2 (quick) / 2-3 (thorough). Per schedule: no panic, no deadlock, no race report, and every response is one a sequential execution can give in which each background computation is either finished or still pending but no superseded result is used; after a drain only the sequential response is accepted.",
   "The scheduler's hand-off is a spin on a plain word inside //go:norace functions (GOMAXPROCS=1), so it adds no happens-before edge; shims wrap the real sync primitives. Not covered: weak-memory effects outside Go's race model, goroutines inside jsonrpc2, schedules beyond the bound, scenarios other than the five.",
   "DESIGN.md §3.3, §5 C14"),
 "C10": ("exploration",
   "exhaustive enumeration of all include graphs on <= 4 files (every 4x4 adjacency matrix) against a reference graph walk",
   "All 65 536 directed graphs on 4 labelled files and all 512 on 3 (self-loops, diamonds, cycles of length 1-4), each also with every single edge redirected to a missing file (graphs with <= 4 edges quick, <= 8 thorough), depth limits 1..5 and a size limit on each non-root file for all graphs on 3 files and 4-file graphs with <= 4 edges, relative / ./ / absolute / ~/ path forms on all 3-file graphs, 7 glob patterns in each of 5 files, and published diagnostics on include lines through the wire seam, are materialised on disk and resolved by the real Loader (Load and LoadFromContent); files, order and the multiset of (verdict kind, target, directive line) must equal a reference depth-first walk with ancestor stack and loaded set.",
   "Reference walk is 40 lines of Go sharing no code with the loader. Not covered: graphs on >= 5 files, symlinks, non-UTF-8 paths, combinations of two limit kinds.",
   "DESIGN.md §4.4, §5 C10"),
 "C11": ("model_checking",
   "explicit-state BFS over operation histories on one shared real Loader (fresh instance + replay + one operation), state key = disk variant vector + dump of the loader cache, differential oracle against a fresh Loader after every load",
   "For every include graph on 3 files with <= 3 edges (all 512 in thorough) and the chain/diamond/cycle/star shapes on 4 files, with two content variants per file (variant 2 toggles one include edge), all histories of load(root_i) from disk, load from editor content, edit-file+InvalidateFile, ClearCache and limit changes are explored breadth-first to depth 5 (7 thorough) with state de-duplication; after every load the result (primary, files with their content identity, order, verdicts) must equal a fresh loader's on the current disk.",
   "State key contains the cache contents read through an overlay accessor, so histories are merged only when the loader really is in the same state. Files changed on disk without invalidation are excluded by the property.",
   "DESIGN.md §3.4, §5 C11"),
 "C12": ("model_checking",
   "explicit-state BFS over update histories on a live real Workspace (fresh instance + replay + one UpdateFile), state key = disk variant vector + canonical dump of index, graphs and resolved tree, differential oracle against a fresh Workspace.Initialize after every step",
   "Workspaces of 2..4 files (thorough: ..5) under main.journal with 3 (thorough 4) content variants per file that collide by construction (same payee with identical and different posting templates, shared accounts / commodities / tags / tag values / dates, commodity directives with different formats, account declarations, include lines that make files and subtrees reachable or unreachable, cycles included); every sequence of update(file, variant) up to depth 6 (thorough 8) with state de-duplication. After every update: member files, accounts (All and ByPrefix), payees, commodities, tags, tag values, dates, five count maps, transaction index, declared accounts/commodities must equal a rebuild exactly; payee templates and commodity formats must equal it whenever the member files agree and otherwise be a value some member file defines.",
   "Rebuild = NewWorkspace + Initialize with a fresh loader on the same disk. Updates carrying editor text that differs from disk have no rebuild reference and are not covered. Histories are sharded by first update; states are de-duplicated per shard.",
   "DESIGN.md §3.4, §5 C12"),
 "C01": ("model_checking",
   "bounded-exhaustive enumeration of documents x content changes against a reference client buffer, plus explicit-state BFS over open/change/close/request histories on two URIs with a differential oracle against a fresh server",
   "Mirror part: every document of <= 3 units (4 thorough) over {a, é, 😀, LF, CRLF} x every range-less change and every ranged change with start/end drawn from all positions (lines 0..lines+1, characters 0..maxLineLen+2, empty range at 0:0, ends past line/document end; positions inside a surrogate pair excluded) x 7 replacement texts, sent as JSON through the real decoder; two-change notifications on documents of <= 2 (3) units. Server text must equal a reference UTF-16 buffer with the LSP clamping rules. History part: BFS to depth 3 (4) over 34 operations (open/full change/ranged diff edit/close on two URIs and 4 journal texts incl. CRLF+non-BMP, and the cache-populating requests inlineCompletion, completion, semanticTokens, documentSymbol); after every step the texts must match and documentSymbol, foldingRange, formatting, completion, hover, inlineCompletion, semanticTokens and the last diagnostics must equal those of a fresh server that only opened the current text.",
   "Reference buffer follows vscode-languageserver-textdocument (clamp before the line terminator). Lone CR line ends and texts outside the unit alphabet are not covered; state key = texts + dump of documents, resolved, payeeTemplatesCache, tokenCache, settings, taken before the oracle probes.",
   "DESIGN.md §4.1, §5 C01"),
 "C03": ("exploration",
   "deviation-bounded exhaustive enumeration of journals rendered from a model of grammar G; parser output compared field by field with the model",
   "Journals are rendered from a model (two default transactions; ~190 single deviations in ~45 parameter groups covering every terminal shape and layout parameter of G: dates, secondary date, status, code, description/payee/note shapes incl. ALLCAPS, leading digits, colons, currency signs, non-BMP, header and posting comments with tags, posting count/indent/status/kind, account shapes, separators incl. tab, 10 commodity forms, sign placements, 15 number spellings, costs, assertions, every directive kind before/between/after, CRLF, missing final newline, 0/2 blank lines). Every journal with <= 2 deviations, and <= 3 over header/amount/line-end parameters (quick) or <= 3 over the whole catalogue (thorough), plus every ordered pair of entry kinds adjacent with 0 and 1 blank lines, is parsed by the real parser: no syntax error, and every semantic field (dates, status, code, description/payee/note, comments, tags, accounts, kinds, exact quantities as rationals, commodities and side, costs, assertions, directive payloads, counts) equals the model; published code-less diagnostics equal the parse errors.",
   "The model/renderer is the ground truth (text is rendered from it, nothing is parsed by the oracle). A journal whose deviation set contains an already failing proper subset is charged to that subset. hledger syntax outside G (periodic/auto postings, aliases, apply account, lot prices, one-mark-three-digit numbers) is not covered.",
   "DESIGN.md §4.2, Appendix A, §5 C03"),
 "C02": ("exploration",
   "bounded-exhaustive enumeration of single-transaction documents against exact rational reference arithmetic, plus a metamorphic notation check",
   "Every transaction with 0..3 postings (4 thorough) over kinds ordinary/(virtual)/[balanced] x amount present or not x commodity assignment over {$ left, EUR right, quoted \"x y\"} x per-commodity residual targets {0, 1, 0.5, 0.000001, -1234567.25} (the last cost-free posting of each commodity group is solved for the target) x no cost or one unit/total cost in another commodity with quantity in {2, 0.5, 1.25} is opened through the wire seam; the published MULTIPLE_INFERRED / UNBALANCED codes and the residuals parsed back from the message must equal math/big.Rat sums over ordinary and bracketed postings. For every transaction of <= 3 postings each amount is respelled (decimal comma, trailing zeros and mark, comma/point/space groups, exponent, sign before commodity, commodity on the other side, wide and tab separators) and the verdict must not change.",
   "Transactions on which hledger's rule and the exact-sum rule disagree (implicit two-commodity price, residual below written precision) are dropped and counted, as the property demands. Quantities outside the value alphabet and >4 postings are not covered.",
   "DESIGN.md §4.3, §5 C02"),
 "C07": ("exploration",
   "bounded-exhaustive enumeration of (journal, entry, damage) triples; differential comparison of the parser's output and the published diagnostics before and after the damage",
   "Three-entry journals rendered from G (13 entry templates: 5 transactions incl. status/code/payee|note/tags/virtual/cost/assertion and an unbalanced one, account, commodity inline and with format sub-line, include, P, D, comment lines; neighbours from 4 templates quick, all 13 thorough; 1 and 0 blank lines between entries) with one entry damaged by every truncation at every column, every insertion of ( ) [ ] \" @ = ; | * - 0 : TAB at every column, every replacement of each byte by 8 (quick) / 32 (thorough) alphabet bytes incl. a truncated UTF-8 lead and non-BMP, and every deleted / duplicated / swapped line. Every other entry must be present in Parse(damaged) with a byte-identical dump of all fields and all positions shifted by exactly the inserted/removed lines, keep exactly its own published diagnostics, and every syntax error must lie on a line of the damaged entry.",
   "With 0 blank lines, damages that make the entry's first line an indented (continuation) line or remove it are skipped: by the grammar they move the entry into its predecessor. Damage spanning two entries and entries that depend on each other by design (Y, declarations) are not covered.",
   "DESIGN.md §5 C07"),
 "C04": ("exploration",
   "bounded-exhaustive enumeration of documents x formatting configurations through the wire seam; reference edit applier, differential re-parse and re-analysis, character-preservation oracle",
   "Documents: (a) journals rendered from G with <= 2 deviations over 26 emphasis parameter groups (quoted commodities, comment spacing, 0-12 decimals, signs, costs, assertions, virtual postings, status marks, tabs, CRLF, directives before the transactions ...), (b) the same journals after every C07 damage of the first transaction, (c) every sequence of <= 2 (3 thorough) fragments of a 24-fragment alphabet, alone and appended to a posting line. Configurations: indent 1..8 x alignment on/off x minimum column {0,1,10,40,80} x 10 commodity-format sets (commodity / D directives, mark . or ,, groups none/,/./space, 0-8 decimals) declared in the file or in another workspace file (thorough: all 128 mark x group x decimals formats). The returned edits are applied by the reference buffer; Parse(original) and Parse(result) must agree on every semantic field with quantities as exact rationals, published diagnostics must agree, non-posting lines may only lose trailing blanks, and on a rewritten line every character other than blanks, quotes and number spellings must survive.",
   "Meaning is judged by the project's own parser (C03 shows it faithful on G) and by the model, not by hledger. Cases whose edits are not well-formed are charged to C05. Two recorded findings (three-decimal display formats; whitespace-only line inside a transaction) are pinned by the repository's own tests.",
   "DESIGN.md §5 C04"),
 "C05": ("exploration",
   "same enumeration as C04; well-formedness of the edit list against a reference UTF-16 buffer, second formatting run, alignment oracle from the model's position map",
   "For every (document, configuration) of the C04 enumeration: every edit range lies inside the document (line < line count, character <= UTF-16 length of the line without its terminator), start <= end, no position inside a surrogate pair, no two edits overlap; formatting the result again changes nothing; with alignment on, for journals rendered from the model, every posting line starts with exactly the configured indent and all amounts following an account without status mark start in one column (counted in characters) that is >= indent + longest bracketed account + 2 and >= the minimum column.",
   "Display width of wide/combining characters is not considered (the property says characters). One recorded finding (three-decimal display formats) shares its cause with C04.",
   "DESIGN.md §5 C05"),
 "C08": ("exploration",
   "bounded-exhaustive enumeration of journals from G x every cursor position x every position-carrying feature; generic range validator plus the model's position map as ground truth",
   "Documents: an include line + the default journal with <= 1 deviation (thorough <= 2) over 33 parameter groups (non-ASCII and non-BMP text in description, payee, account, comment, commodity; code; status; blanks; quoted commodities; tags after non-ASCII text; adjacent entries; directives) plus 18 listed pairs, with one included file on disk so that Locations in other files occur. For every cursor position of every line: hover, prepareRename, definition, references (with and without declaration), rename, completion, inlineCompletion; once per document: published diagnostics, documentSymbol, workspace/symbol (two queries), documentLink, foldingRange. Every Range found anywhere in a result is validated against the text of the document it refers to (line inside, character <= UTF-16 line length, start <= end, not inside a surrogate pair); a range reported for an account, commodity, payee, date, tag, amount, include path or entry must equal the UTF-16 span recorded when the element was rendered (and contain the cursor for cursor-driven features); folds and outline symbols must be pairwise disjoint or nested; completion ranges end at the cursor and start on its line at or before it.",
   "Whether a feature must answer at a position is not part of the property and is not checked. CodeAction/ExecuteCommand are not wired in the dispatcher. Violations already present with a proper subset of the deviations are charged to that subset.",
   "DESIGN.md §4.5, §5 C08"),
 "C17": ("model_checking",
   "deviation-bounded enumeration of journals for token geometry against the model's position map, plus explicit-state BFS over request histories with a client model that applies delta edits; differential oracle against a fresh server",
   "Geometry: journals from G with <= 2 deviations over 25 parameter groups (code, quoted commodities, | with 0-2 blanks, @ @@ = ==, status, tags after non-ASCII text, several tags, every directive kind, CRLF ...) and all fragment pairs for the structural clauses: decoded tokens strictly increasing and non-overlapping, inside their line in UTF-16 units, type and modifiers inside the advertised legend; each token equals the rendered span of exactly one lexeme of its kind (code with parentheses, quoted commodity with quotes, operator on the operator, tag on name:) and every lexeme of a mapped kind has a token; range(i, j) for every line interval equals the full result restricted to those lines. Histories: BFS to depth 4 (6 thorough) over 23 operations on two documents with three texts (one empty), full / delta with current, superseded, never-issued and empty result id / range / close / reopen, and a second server sharing the process-global cache; the array the client model rebuilds from delta edits must equal the full result of a fresh server for the current text.",
   "Client model: holds the array of its latest result id only; a response without result id makes it forget all ids (clients that keep using an id afterwards are outside the property). State key = texts, client arrays, shape of the token cache (ids abstracted).",
   "DESIGN.md §5 C17"),
 "C09": ("exploration",
   "bounded-exhaustive enumeration of multi-file workspaces rendered from the model; occurrence lists known by construction; rename result compared byte for byte with the model re-rendered under the new name",
   "Workspaces of 1..3 files (thorough 4) with every include tree rooted at main.journal (1, 1, 3, 16 trees), symbol kind account / commodity / payee, 0..2 occurrences per file, a declaration directive in one file or none, a distractor symbol sharing a prefix, workspace root present or absent, every file closed, all files open, or one file open with an unsaved edit that adds or removes an occurrence. From every file holding an occurrence, at every character of every occurrence (declarations included), with includeDeclaration on and off: textDocument/references must return exactly the model's occurrences in the requesting file and its include tree (without a workspace) or in all workspace files (with one), editor text for open files, each under the URI of the file that contains it; textDocument/rename must yield, after applying the WorkspaceEdit with the reference edit applier, exactly the texts rendered from the model with the name substituted.",
   "Diamonds and cycles are C10's business. Symbols in files that are neither in the include tree nor in the workspace are not covered.",
   "DESIGN.md §5 C09"),
 "C16": ("exploration",
   "bounded-exhaustive enumeration of (symbol table layout, typed line, fragment, cursor, configuration); oracle from the model's symbol table with use counts; paired configurations for the limit law",
   "A symbol table of 6 accounts (shared prefixes and segments, mixed case, non-ASCII), 4 payees, 3 commodities and 3 tags with 0-2 values, with use counts forming ties and strict orders, in one file, split over root + included file, and the same with a workspace root. Typed lines: ordinary / (virtual) / [balanced] posting, account and commodity directive, header after date, after status, after code, transaction and posting comments (tag name), tag value, commodity after an amount. Fragments: every prefix of every name in original, lower and upper case, every subsequence of length <= 3 of one name per kind, one non-matching fragment, the empty fragment; and every cursor column of two lines per context. Configurations: maxResults {1,2,3,5,50,200} x fuzzy on/off x counts on/off. Every response: size <= maximum; every label is a name of the declared kind in the model (or spelled by the typed line itself); every label matches the replaced text as case-insensitive subsequence (fuzzy) or prefix; edit range on the cursor line, start <= cursor = end; at designed cursors the replaced text is the typed fragment, every name starting with it is present when the maximum allows, and with nothing typed use counts are non-increasing; items(max=a) is the length-a prefix of items(max=b) for consecutive maxima.",
   "Date completion is clock-dependent and only covered for totality (C06). Names spelled by the line being typed are part of the document and accepted.",
   "DESIGN.md §5 C16"),
 "C18": ("exploration",
   "bounded-exhaustive enumeration of declaration placements x settings x posting classes over a four-file workspace; expected (code, line) multiset computed from the model",
   "Layout main.journal (workspace root) -> cur.journal (the open document) -> inc.journal, and main.journal -> sib.journal. Account and, independently, commodity declarations live in the current, the included, the sibling workspace file or nowhere (16 placements) x the 8 combinations of the three diagnostics settings x workspace root present/absent. Transaction 1 uses accounts of 15 classes (declared, child, grandchild, sibling, sharing a prefix without colon boundary, standard categories in mixed and upper case, look-alike category, undeclared) alone, in all pairs (thorough: all triples) and all together; transaction 2 uses declared and undeclared commodities in amount, cost and assertion position, once and twice. The published diagnostics must contain exactly one UNDECLARED_ACCOUNT on the line of every uncovered posting iff an account declaration is visible (own file, include tree, workspace files with a root) and the setting is on, exactly one UNDECLARED_COMMODITY per (transaction, undeclared symbol) iff a commodity declaration is visible and its setting is on, and each setting affects only its own code.",
   "Declarations via D / P are not declarations (hledger agrees). Single-segment account names are outside G.",
   "DESIGN.md §4.3, §5 C18"),
 "C20": ("exploration",
   "bounded-exhaustive enumeration of multi-file workspaces rendered from the model; hover markdown parsed back and compared with exact rational aggregates computed on the model",
   "Workspaces of 1..3 files (thorough 4) with every include tree, three accounts with postings in every file, amounts in two commodities drawn by rotation from 10 spellings (12 decimals, comma/point/space/Indian digit groups, decimal comma, exponent, negative), amount-less postings, unit and total costs, a payee with and without note, tags and tag values repeated across files; workspace root on/off; every file closed, all open, or one file open with an unsaved edit adding a transaction. Hover is requested at the first, middle and last character of every account, payee, tag name, tag value and amount of every file. The figures parsed back from the markdown (per-commodity balance lines, Postings, Transactions, Usage, Amount, Unit/Total cost) must equal, as exact rationals and integers, the aggregates of the model over the requesting file and its include tree (no workspace) or all workspace files (with one), each file once, editor text for open files.",
   "Inferred amounts are not part of the statement. Whether a hover must exist at a position is not checked here (C08 checks its range).",
   "DESIGN.md §4.3, §5 C20"),
 "C19": ("model_checking",
   "bounded-exhaustive enumeration of configuration payloads against a reference settings model, plus explicit-state BFS over sequences of configuration events with behaviour probes after every event",
   "Payloads: each of the 24 documented keys and the alias limits.maxFileSize x 20 JSON values (null, booleans, 0/1/2/7/-1, 2.0, 1e99, strings \"\", \"3\", \" 4 \", \"true\", \"FALSE\", \"x\", arrays, objects) x 5 forms (nested, dotted, each inside a hledger wrapper, wrapper twice) x 3 channels (initializationOptions; didChangeConfiguration answered through workspace/configuration; didChangeConfiguration with pushed settings to a client that cannot be pulled); 11 whole-payload shapes; all pairs of keys from different sections with two values each. Sequences: BFS over <= 3 (4 thorough) events from a 10-payload menu with state key = effective settings. After every event: no failure; the effective settings (read through an overlay accessor) equal the reference model (well-typed value taken, non-positive numbers reset to the default, anything else keeps the previous value; numeric but not well-typed values only need a legal result); and behaviour probes: completion size and matching mode, formatting indent / alignment / minimum column, each diagnostics switch removes exactly its code, feature switches at initialize remove exactly their capability, include depth and size limits produce their verdicts.",
   "cli.* effects are only compared as stored values (no hledger binary in the sandbox). The reference model is written from docs/configuration.md and the property statement.",
   "DESIGN.md §4.3, §5 C19"),
}

NOT_YET = "check not built yet in this session (work in progress; see DESIGN.md §5 for the plan)"

def main():
    checks = []
    for pid in ALL:
        if pid not in CLAIMED:
            continue
        cat, tech, text, note, ref = CLAIMED[pid]
        checks.append({
            "property_id": pid,
            "quick_cmd": "./bin/vcheck %s quick" % pid,
            "thorough_cmd": "./bin/vcheck %s thorough" % pid,
            "evidence_file": "/verif/evidence/%s.json" % pid,
            "replay_cmd_template": "./bin/vcheck %s --replay {path}" % pid,
            "engine": "vcheck",
            "level_claimed": {"category": cat, "text": text, "design_ref": ref},
            "level_note": note,
            "technique": tech,
        })
    na = [{"property_id": p, "reason": NOT_YET} for p in ALL if p not in CLAIMED]
    m = {
        "version": 1,
        "setup_cmd": "cd /verif && GOFLAGS=-mod=mod GOPROXY=off go build -o bin/vcheck ./cmd/vcheck && ./bin/vcheck warm",
        "hooks": {
            "guard": "none in /repo: instrumentation is generated per check from the current working tree into a scratch overlay (go build -overlay); nothing in /repo is tagged or changed",
            "enable": "vcheck rewrites a copy of every non-test Go file (sync import -> scheduler shim, go statements -> controlled spawn, map ranges -> order shim, loop ticks) and adds the harness as virtual packages via -overlay and a private -modfile",
            "baseline_off_cmd": "cd /repo && GOFLAGS=-mod=mod GOPROXY=off go test -vet=off -count=1 ./...",
            "source_commits": [],
            "add_only": True,
        },
        "engines": [
            {"name": "vcheck", "path": "/verif/cmd/vcheck", "serves_properties": sorted(CLAIMED),
             "kind_free_text": "host driver: overlay instrumenter + sharded worker runner + known-findings matcher + evidence writer; worker = /verif/harness (controlled scheduler vsched, DFS explorer, explicit-state BFS, map-order explorer, bounded-exhaustive input enumerators) linked against the instrumented repository"},
        ],
        "checks": checks,
        "not_applicable": na,
        "notes": "Exit codes: 0 held (possibly with KNOWN-FINDING lines), 1 VIOLATION, 2 infrastructure error. known-findings.txt lists recorded genuine defects and fixed: entries.",
    }
    json.dump(m, open(os.path.join(os.path.dirname(__file__), "..", "MANIFEST.json"), "w"), indent=1)
    print("claimed:", sorted(CLAIMED))

main()
