#!/usr/bin/env python3
"""Re-confirm seeded changes at the current /repo HEAD.

usage: seedreconfirm.py [-j N] [<id>/<n> ...]      (default: all)

For every seeded change, in a scratch worktree of /repo's HEAD (under /tmp,
removed afterwards; never in /repo):
  1. the demonstration passes on the clean tree,
  2. the patch applies, the project builds and the whole test suite passes with it,
  3. the demonstration fails with the patch.
Prints one line per change and writes /verif/seeded/RECONFIRM.txt.
Changes whose meta.json has a "status" (masked on the current tree) are listed
but not expected to confirm.
"""
import glob, json, os, shutil, subprocess, sys
from concurrent.futures import ThreadPoolExecutor

ENV = dict(os.environ, GOFLAGS="-mod=mod", GOPROXY="off")


def sh(cmd, cwd, timeout=1200):
    p = subprocess.run(cmd, shell=True, cwd=cwd, env=ENV, stdout=subprocess.PIPE, stderr=subprocess.STDOUT, text=True, timeout=timeout)
    return p.returncode, p.stdout


def one(wt, seed):
    d = "/verif/seeded/" + seed
    meta = json.load(open(d + "/meta.json"))
    demo = meta["demo"]
    sh("git checkout -q -- . && git clean -fdxq", wt)
    dest = os.path.join(wt, demo["copy_to"])
    os.makedirs(os.path.dirname(dest), exist_ok=True)
    shutil.copy(d + "/demo_test.go", dest)
    rc_clean, out_clean = sh(demo["cmd"], wt)
    rc, out = sh("git apply " + d + "/patch.diff", wt)
    if rc:
        return seed, "PATCH-DOES-NOT-APPLY", out[-300:]
    os.rename(dest, dest + ".off")
    rc_suite, out_suite = sh("go build ./... && go test -count=1 ./...", wt)
    if rc_suite:
        rc_suite, out_suite = sh("go build ./... && go test -count=1 ./...", wt)  # load-sensitive tests
    os.rename(dest + ".off", dest)
    rc_with, out_with = sh(demo["cmd"], wt)
    sh("git checkout -q -- . && git clean -fdxq", wt)
    bad = []
    if rc_clean != 0:
        bad.append("demo fails on the clean tree")
    if rc_suite != 0:
        bad.append("suite fails with the change")
    if rc_with == 0 or "FAIL" not in out_with or "[build failed]" in out_with or "[setup failed]" in out_with:
        bad.append("demo does not fail with the change")
    status = "ok" if not bad else "; ".join(bad)
    if meta.get("status"):
        status += " (masked: see meta.json)"
    detail = ""
    if bad:
        detail = (out_clean if rc_clean else out_suite if rc_suite else out_with)[-600:]
    return seed, status, detail


def main():
    args = sys.argv[1:]
    jobs = 4
    if args[:1] == ["-j"]:
        jobs = int(args[1])
        args = args[2:]
    seeds = args or sorted(p[len("/verif/seeded/"):-len("/meta.json")] for p in glob.glob("/verif/seeded/C*/*/meta.json"))
    head = subprocess.check_output("git -C /repo rev-parse --short HEAD", shell=True, text=True).strip()
    wts = []
    for i in range(jobs):
        wt = "/tmp/wt_rc%d" % i
        subprocess.run("git -C /repo worktree remove --force %s" % wt, shell=True, stderr=subprocess.DEVNULL)
        subprocess.check_call("git -C /repo worktree add -q --detach %s HEAD" % wt, shell=True)
        wts.append(wt)
    results = []
    try:
        chunks = [seeds[i::jobs] for i in range(jobs)]

        def run(i):
            out = []
            for s in chunks[i]:
                r = one(wts[i], s)
                print("%-8s %s" % (r[0], r[1]), flush=True)
                if r[2]:
                    print("    " + r[2].replace("\n", "\n    "), flush=True)
                out.append(r)
            return out

        with ThreadPoolExecutor(jobs) as ex:
            for part in ex.map(run, range(jobs)):
                results += part
    finally:
        for wt in wts:
            subprocess.run("git -C /repo worktree remove --force %s" % wt, shell=True)
    results.sort()
    if not args:
        with open("/verif/seeded/RECONFIRM.txt", "w") as f:
            f.write("re-confirmation of every seeded change at /repo %s (tools/seedreconfirm.py):\n" % head)
            f.write("clean tree: demonstration passes; with the change: builds, whole suite passes, demonstration fails\n\n")
            for s, st, _ in results:
                f.write("%-8s %s\n" % (s, st))
    bad = [r for r in results if not r[1].startswith("ok")]
    print("%d changes, %d not confirmed" % (len(results), len(bad)))


main()
