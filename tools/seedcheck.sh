#!/bin/bash
# usage: tools/seedcheck.sh <seed dir containing patch.diff> <check id> [more check ids...]
# Applies the seeded change to /repo, runs the repository tests and the given
# quick checks, and reverts /repo. Prints one line per check.
set -u
seed="$1"; shift
cd /repo || exit 2
if [ -n "$(git status --porcelain)" ]; then echo "repo not clean"; exit 2; fi
if ! git apply --check "$seed/patch.diff" 2>/dev/null; then echo "PATCH DOES NOT APPLY: $seed"; exit 2; fi
git apply "$seed/patch.diff"
export GOFLAGS=-mod=mod GOPROXY=off
if [ -n "${SEED_SKIP_TESTS:-}" ]; then go build ./... >/tmp/seedcheck_build.txt 2>&1 || echo "BUILD FAILS"; elif go build ./... >/tmp/seedcheck_build.txt 2>&1 && go test -count=1 ./... >/tmp/seedcheck_test.txt 2>&1; then echo "suite: passes with the change"; else echo "suite: FAILS with the change"; grep -m3 "FAIL\|error" /tmp/seedcheck_test.txt /tmp/seedcheck_build.txt; fi
cd /verif
for id in "$@"; do
  out=$(./bin/vcheck "$id" ${SEED_TIER:-quick} 2>&1)
  code=$?
  nviol=$(echo "$out" | grep -c "^VIOLATION")
  first=$(echo "$out" | grep -m1 "sig:" | cut -c1-200)
  echo "check $id: exit=$code violations=$nviol $first"
done
git -C /repo checkout -- . && git -C /repo clean -fdq -- internal cmd 2>/dev/null
git -C /repo status --porcelain | head -3
