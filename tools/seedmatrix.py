#!/usr/bin/env python3
"""Run the quick checks against every seeded change (never two at once).

usage: seedmatrix.py [<id>/<n> ...]     (default: all of seeded/MATRIX.txt)

For each change: git -C /repo apply, run the listed quick checks through
tools/seedcheck.sh (which reverts /repo afterwards), record which check exits 1
with a VIOLATION line. Writes seeded/MATRIX_RESULT.txt when run for all.
The evidence files hold seeded-run results afterwards: rerun the quick checks
on the clean tree before committing evidence.
"""
import json, os, re, subprocess, sys

want = sys.argv[1:]
rows = []
for l in open("/verif/seeded/MATRIX.txt"):
    if l.startswith("#") or not l.strip():
        continue
    parts = l.split()
    if want and parts[0] not in want:
        continue
    rows.append((parts[0], parts[1:]))
head = subprocess.check_output("git -C /repo rev-parse --short HEAD", shell=True, text=True).strip()
out = []
env = dict(os.environ, SEED_SKIP_TESTS="1")
for seed, checks in rows:
    meta = json.load(open("/verif/seeded/%s/meta.json" % seed))
    p = subprocess.run(["/verif/tools/seedcheck.sh", "/verif/seeded/" + seed] + checks, env=env, stdout=subprocess.PIPE, stderr=subprocess.STDOUT, text=True)
    rep = []
    for l in p.stdout.splitlines():
        mo = re.match(r"check (C\d\d): exit=(\d+) violations=(\d+)\s*(.*)", l)
        if mo and mo.group(2) == "1" and int(mo.group(3)) > 0:
            rep.append("%s [%s]" % (mo.group(1), mo.group(4).replace("sig: ", "")[:110]))
        elif not mo and l.strip():
            rep.append("?? " + l.strip()[:120])
    status = "reported by " + "; ".join(rep) if rep else "NOT REPORTED"
    if meta.get("status"):
        status += "   (masked on the current tree, see meta.json)"
    line = "%-7s %s" % (seed, status)
    print(line, flush=True)
    out.append(line)
if not want:
    with open("/verif/seeded/MATRIX_RESULT.txt", "w") as f:
        f.write("quick checks against every seeded change at /repo %s (tools/seedmatrix.py)\n\n" % head)
        f.write("\n".join(out) + "\n")
