#!/bin/bash
# usage: seedrebase.sh <id> <n>: re-confirm the seeded change <id>/<n> at the current /repo HEAD with the carried-over patch /tmp/rp/rebased_<id>_<n>.diff (scratch worktree /tmp/wt_exp, created with: git -C /repo worktree add --detach /tmp/wt_exp HEAD); keeps the original as patch.orig.diff
p=$1; dn=$2
cd /tmp/wt_exp && git checkout -q -- . && git clean -fdq && git checkout -q --detach $(git -C /repo rev-parse HEAD)
rm -rf SEED; mkdir -p SEED/1
cp /tmp/rp/rebased_${p}_$dn.diff SEED/1/patch.diff
cp /verif/seeded/$p/$dn/demo_test.go SEED/1/
if [ -f /verif/seeded/$p/$dn/patch.orig.diff ]; then cp /verif/seeded/$p/$dn/patch.orig.diff /tmp/rp/orig_${p}_$dn.diff; else cp /verif/seeded/$p/$dn/patch.diff /tmp/rp/orig_${p}_$dn.diff; fi
python3 - $p $dn <<'PY'
import json,sys
p,dn=sys.argv[1:]
m=json.load(open(f'/verif/seeded/{p}/{dn}/meta.json'))
d=m['demo']
tags=f"-tags {d['tags']}" if d['tags'] else ""
dest=d['copy_to']
if dest.startswith('SEED/'):
    dest='SEED/1/demo_test.go'
    cmd=f"go test -count=1 {tags} ./SEED/1/"
else:
    cmd=f"cp SEED/1/demo_test.go {dest} && go test -count=1 {tags} -run {d['run']} ./x/"
json.dump({'summary':m['summary'],'needs':m['needs'],'files':m['files'],'demo_cmd':cmd},open('/tmp/wt_exp/SEED/1/meta.json','w'))
PY
grep -q "./SEED/1/" SEED/1/meta.json || printf "module seed\n" > SEED/go.mod
python3 /verif/tools/seedimport.py /tmp/wt_exp 1 $p $dn 2>&1 | tail -2 | cut -c1-170
rc=${PIPESTATUS[0]}
cp /tmp/rp/orig_${p}_$dn.diff /verif/seeded/$p/$dn/patch.orig.diff
python3 - $p $dn <<'PY'
import json,sys
p,dn=sys.argv[1:]
f=f'/verif/seeded/{p}/{dn}/meta.json'
m=json.load(open(f))
m['rebased']='patch.orig.diff is the change as produced and first confirmed; patch.diff is the same change carried over later repo fixes in the same file (by 3-way apply or by hand); the confirmation above was repeated at the newer commit'
json.dump(m,open(f,'w'),indent=1)
PY
rm -rf /tmp/wt_exp/SEED
