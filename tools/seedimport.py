#!/usr/bin/env python3
"""Import and confirm a seeded change produced in a scratch worktree.

usage: seedimport.py <worktree> <n> <property id> [<destination index>]

Reads <worktree>/SEED/<n>/{patch.diff,demo_test.go,meta.json}, and confirms in
that scratch worktree (never in /repo):
  1. the patch applies to a clean checkout, the project builds and the whole
     test suite passes with it,
  2. the demonstration fails with the patch,
  3. the demonstration passes without it.
Only then the three files are copied to /verif/seeded/<id>/<n>/ with the
normalised demo description and what was run added to meta.json.
"""
import json, os, re, shutil, subprocess, sys

ENV = dict(os.environ, GOFLAGS="-mod=mod", GOPROXY="off")


def sh(cmd, cwd, timeout=900):
    p = subprocess.run(cmd, shell=True, cwd=cwd, env=ENV, stdout=subprocess.PIPE, stderr=subprocess.STDOUT, text=True, timeout=timeout)
    return p.returncode, p.stdout


def main():
    wt, n, pid = sys.argv[1], sys.argv[2], sys.argv[3]
    dn = sys.argv[4] if len(sys.argv) > 4 else n
    src = os.path.join(wt, "SEED", n)
    meta = json.load(open(os.path.join(src, "meta.json")))
    cmd = meta.get("demo_cmd", "")
    m = re.search(r"cp (?:\S*/)?SEED/%s/demo_test.go (\S+)" % n, cmd)
    dest = m.group(1) if m else "SEED/%s/demo_test.go" % n
    m = re.search(r"-tags[ =](\S+)", cmd)
    tags = m.group(1) if m else ""
    m = re.search(r"-run[ =](\S+)", cmd)
    run = m.group(1) if m else ""
    pkg = "./" + os.path.dirname(dest) + "/"
    demo = "go test -count=1 %s %s %s" % ("-tags " + tags if tags else "", "-run " + run if run else "", pkg)
    demo = re.sub(r"\s+", " ", demo)
    log = []

    rc, out = sh("git status --porcelain", wt)
    dirty = [l for l in out.splitlines() if not l.endswith("SEED/")]
    if dirty:
        sys.exit("worktree not clean: %r" % dirty)
    rc, out = sh("git apply --check SEED/%s/patch.diff" % n, wt)
    if rc:
        sys.exit("patch does not apply: " + out)
    sh("git apply SEED/%s/patch.diff" % n, wt)
    try:
        rc, out = sh("go build ./... && go test -count=1 ./...", wt)
        log.append("with change: go build ./... && go test -count=1 ./... -> exit %d" % rc)
        if rc:
            print(out[-3000:])
            sys.exit("suite fails with the change")
        copied = False
        if dest != "SEED/%s/demo_test.go" % n:
            shutil.copy(os.path.join(src, "demo_test.go"), os.path.join(wt, dest))
            copied = True
        rc1, out1 = sh(demo, wt)
        log.append("with change: %s -> exit %d" % (demo, rc1))
    finally:
        sh("git checkout -- .", wt)
    rc2, out2 = sh(demo, wt)
    log.append("without change: %s -> exit %d" % (demo, rc2))
    if copied:
        os.remove(os.path.join(wt, dest))
    fails = [l for l in out1.splitlines() if l.startswith("--- FAIL") or "FAIL" in l][:6]
    print("\n".join(log))
    print("failure lines with change:", fails)
    if rc1 == 0 or "FAIL" not in out1 or "[build failed]" in out1 or "[setup failed]" in out1:
        print(out1[-2000:])
        sys.exit("demonstration does not fail with the change")
    if rc2 != 0:
        print(out2[-2000:])
        sys.exit("demonstration does not pass on the clean tree")
    dst = os.path.join("/verif/seeded", pid, dn)
    os.makedirs(dst, exist_ok=True)
    shutil.copy(os.path.join(src, "patch.diff"), dst)
    shutil.copy(os.path.join(src, "demo_test.go"), dst)
    out = {
        "property": pid,
        "summary": meta.get("summary", ""),
        "needs": meta.get("needs", ""),
        "files": meta.get("files", []),
        "demo": {"copy_to": dest, "tags": tags, "run": run, "cmd": demo},
        "confirmed": log,
        "demo_failure": fails,
    }
    json.dump(out, open(os.path.join(dst, "meta.json"), "w"), indent=1)
    print("imported", dst)


main()
