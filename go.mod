module verif

go 1.24
