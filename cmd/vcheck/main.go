// vcheck is the host-side driver: it instruments the current /repo tree into an
// overlay, builds the worker, runs it sharded over the cores, merges the
// results, matches violations against known-findings.txt, writes the evidence
// file and sets the exit code (0 held, 1 VIOLATION, 2 infrastructure error).
package main

import (
	"crypto/sha1"
	"encoding/hex"
	"encoding/json"
	"fmt"
	"os"
	"os/exec"
	"os/signal"
	"path/filepath"
	"sort"
	"strconv"
	"strings"
	"sync"
	"syscall"
	"time"
)

// children started by this process; killed when vcheck itself is told to stop
var (
	childMu  sync.Mutex
	children = map[int]*os.Process{}
)

func trackChild(p *os.Process, add bool) {
	childMu.Lock()
	defer childMu.Unlock()
	if add {
		children[p.Pid] = p
	} else {
		delete(children, p.Pid)
	}
}

func killChildrenOnSignal() {
	ch := make(chan os.Signal, 1)
	signal.Notify(ch, syscall.SIGINT, syscall.SIGTERM, syscall.SIGHUP)
	go func() {
		<-ch
		childMu.Lock()
		for _, p := range children {
			_ = p.Kill()
		}
		childMu.Unlock()
		os.Exit(2)
	}()
}

type violation struct {
	Sig    string          `json:"sig"`
	Clause string          `json:"clause"`
	Detail string          `json:"detail"`
	Case   json.RawMessage `json:"case"`
	Count  int64           `json:"count"`
}

type workerResult struct {
	Property    string            `json:"property"`
	Evaluations int64             `json:"evaluations"`
	Nontrivial  int64             `json:"distinct_nontrivial"`
	States      int64             `json:"states"`
	Transitions int64             `json:"transitions"`
	Traces      int64             `json:"traces_validated_against_impl"`
	Samples     []json.RawMessage `json:"samples"`
	Violations  []*violation      `json:"violations"`
	Exhaustive  bool              `json:"exhaustive"`
	Caps        []string          `json:"caps"`
	Outcomes    map[string]int64  `json:"outcomes"`
	Counters    map[string]int64  `json:"counters"`
	Notes       []string          `json:"notes"`
	Bounds      map[string]string `json:"bounds"`
	InfraError  string            `json:"infra_error"`
}

// per-property configuration of the driver
type propConf struct {
	Flavour  map[string]string // tier -> flavour (plain|race|order|tick)
	Level    string            // evidence level
	Shards   int
	Budget   map[string]time.Duration
	MemLimit bool // run workers under ulimit -v
	Assume   []string
}

func dflt(level string) propConf {
	return propConf{
		Flavour: map[string]string{"quick": "plain", "thorough": "plain"},
		Level:   level, Shards: 16,
		Budget:   map[string]time.Duration{"quick": 75 * time.Second, "thorough": 20 * time.Minute},
		MemLimit: true,
	}
}

var verifDir = "/verif"
var repoDir = "/repo"

func env(name, d string) string {
	if v := os.Getenv(name); v != "" {
		return v
	}
	return d
}

func fatal(code int, format string, a ...any) {
	fmt.Printf(format+"\n", a...)
	os.Exit(code)
}

func goEnv() []string {
	e := os.Environ()
	out := e[:0:0]
	for _, kv := range e {
		if strings.HasPrefix(kv, "GOFLAGS=") || strings.HasPrefix(kv, "GOPROXY=") || strings.HasPrefix(kv, "GOTOOLCHAIN=") || strings.HasPrefix(kv, "GOSUMDB=") {
			continue
		}
		out = append(out, kv)
	}
	return append(out, "GOFLAGS=-mod=mod", "GOPROXY=off", "GOTOOLCHAIN=auto")
}

func mkScratch() string {
	base := os.Getenv("VERIF_SCRATCH")
	if base == "" {
		base = os.TempDir()
	}
	d, err := os.MkdirTemp(base, "verif-")
	if err != nil {
		fatal(2, "scratch: %v", err)
	}
	return d
}

func dataScratch() string {
	if st, err := os.Stat("/dev/shm"); err == nil && st.IsDir() {
		if d, err := os.MkdirTemp("/dev/shm", "verif-"); err == nil {
			return d
		}
	}
	return mkScratch()
}

// buildWorker instruments and builds the worker binary for a flavour.
func buildWorker(scratch, flavour string) (string, *instrStats) {
	sub := filepath.Join(scratch, "build-"+flavour)
	ov, stats, err := generateOverlay(repoDir, verifDir, sub, flavour)
	if err != nil {
		fatal(2, "INFRA instrumentation failed: %v", err)
	}
	bin := filepath.Join(sub, "vworker")
	// private copies of go.mod/go.sum so that -mod=mod never edits /repo
	modfile := filepath.Join(sub, "go.mod")
	for _, n := range []string{"go.mod", "go.sum"} {
		b, err := os.ReadFile(filepath.Join(repoDir, n))
		if err != nil {
			fatal(2, "INFRA cannot read %s: %v", n, err)
		}
		if err := os.WriteFile(filepath.Join(sub, n), b, 0o644); err != nil {
			fatal(2, "INFRA %v", err)
		}
	}
	args := []string{"build", "-modfile", modfile, "-overlay", ov, "-o", bin}
	if flavour == "race" {
		args = append(args, "-race")
	}
	args = append(args, "./cmd/verifworker")
	cmd := exec.Command("go", args...)
	cmd.Dir = repoDir
	cmd.Env = goEnv()
	out, err := cmd.CombinedOutput()
	if err != nil {
		fatal(2, "INFRA build of instrumented tree failed (flavour %s): %v\n%s", flavour, err, out)
	}
	return bin, stats
}

type workerDeath struct {
	Shard   int
	Err     string
	Current string
	Tail    string
}

var deaths []workerDeath
var deathMu sync.Mutex

func runWorkers(bin, prop, tier, flavour string, conf propConf, scratch, data string, seed int64, replay string) ([]*workerResult, []string) {
	n := conf.Shards
	if replay != "" {
		n = 1
	}
	results := make([]*workerResult, n)
	errs := make([]string, n)
	var wg sync.WaitGroup
	budget := conf.Budget[tier]
	if b := os.Getenv("VERIF_BUDGET"); b != "" {
		if d, err := time.ParseDuration(b); err == nil {
			budget = d
		}
	}
	for i := 0; i < n; i++ {
		wg.Add(1)
		go func(i int) {
			defer wg.Done()
			out := filepath.Join(scratch, fmt.Sprintf("out_%d.json", i))
			wdata := filepath.Join(data, fmt.Sprintf("w%d", i))
			home := filepath.Join(wdata, "home")
			_ = os.MkdirAll(home, 0o755)
			args := []string{"-prop", prop, "-tier", tier, "-shard", strconv.Itoa(i), "-nshards", strconv.Itoa(n),
				"-seed", strconv.FormatInt(seed, 10), "-scratch", wdata, "-out", out, "-budget", budget.String()}
			if replay != "" {
				args = append(args, "-replay", replay)
			}
			var cmd *exec.Cmd
			if conf.MemLimit && flavour != "race" {
				sh := "ulimit -v 6291456; exec \"$0\" \"$@\""
				cmd = exec.Command("sh", append([]string{"-c", sh, bin}, args...)...)
			} else {
				cmd = exec.Command(bin, args...)
			}
			cmd.Env = []string{"HOME=" + home, "PATH=/nonexistent", "GOMAXPROCS=1", "TMPDIR=" + wdata,
				"GORACE=log_path=" + filepath.Join(scratch, fmt.Sprintf("race_%d", i)) + " halt_on_error=0 exitcode=0 history_size=2",
				"VERIF_RACELOG=" + filepath.Join(scratch, fmt.Sprintf("race_%d", i)),
				"GOTRACEBACK=single", "C04_PART=" + os.Getenv("C04_PART")}
			var stderr strings.Builder
			cmd.Stderr = &stderr
			cmd.Stdout = &stderr
			// generous hang deadline: tier budget + 10 minutes
			done := make(chan error, 1)
			if err := cmd.Start(); err != nil {
				errs[i] = "start: " + err.Error()
				return
			}
			trackChild(cmd.Process, true)
			defer trackChild(cmd.Process, false)
			go func() { done <- cmd.Wait() }()
			var err error
			select {
			case err = <-done:
			case <-time.After(budget + 10*time.Minute):
				_ = cmd.Process.Kill()
				err = fmt.Errorf("worker exceeded hang deadline")
				<-done
			}
			cur, _ := os.ReadFile(filepath.Join(wdata, fmt.Sprintf("current_%d.json", i)))
			if err != nil {
				tail := stderr.String()
				if len(tail) > 3000 {
					tail = tail[len(tail)-3000:]
				}
				errs[i] = fmt.Sprintf("worker %d died: %v\ncurrent case: %s\n%s", i, err, strings.TrimSpace(string(cur)), tail)
				deathMu.Lock()
				deaths = append(deaths, workerDeath{i, err.Error(), strings.TrimSpace(string(cur)), tail})
				deathMu.Unlock()
				// a partial result may exist (the worker flushes on abort)
				if b, rerr := os.ReadFile(out); rerr == nil {
					var r workerResult
					if json.Unmarshal(b, &r) == nil {
						results[i] = &r
					}
				}
				return
			}
			b, rerr := os.ReadFile(out)
			if rerr != nil {
				errs[i] = "no result: " + rerr.Error() + "\n" + stderr.String()
				return
			}
			var r workerResult
			if jerr := json.Unmarshal(b, &r); jerr != nil {
				errs[i] = "bad result: " + jerr.Error()
				return
			}
			results[i] = &r
		}(i)
	}
	wg.Wait()
	var es []string
	for _, e := range errs {
		if e != "" {
			es = append(es, e)
		}
	}
	return results, es
}

type finding struct {
	Property string
	Sig      string
	Text     string
	Matched  bool
}

func loadFindings() []*finding {
	b, err := os.ReadFile(filepath.Join(verifDir, "known-findings.txt"))
	if err != nil {
		return nil
	}
	var out []*finding
	for _, line := range strings.Split(string(b), "\n") {
		line = strings.TrimSpace(line)
		if !strings.HasPrefix(line, "finding:") {
			continue
		}
		rest := strings.TrimSpace(strings.TrimPrefix(line, "finding:"))
		// property=C04 sig=<sig> :: text
		parts := strings.SplitN(rest, " :: ", 2)
		head := parts[0]
		text := ""
		if len(parts) == 2 {
			text = parts[1]
		}
		if !strings.HasPrefix(head, "property=") {
			continue
		}
		sp := strings.SplitN(head, " sig=", 2)
		if len(sp) != 2 {
			continue
		}
		out = append(out, &finding{Property: strings.TrimPrefix(sp[0], "property="), Sig: strings.TrimSpace(sp[1]), Text: text})
	}
	return out
}

func hashOf(s string) string {
	h := sha1.Sum([]byte(s))
	return hex.EncodeToString(h[:6])
}

func main() {
	if len(os.Args) < 2 {
		fatal(2, "usage: vcheck <property|warm|instr> <quick|thorough> | vcheck <property> --replay <file>")
	}
	killChildrenOnSignal()
	verifDir = env("VERIF_DIR", verifDir)
	repoDir = env("VERIF_REPO", repoDir)
	prop := os.Args[1]
	if prop == "warm" {
		warm()
		return
	}
	tier := "quick"
	replay := ""
	for i := 2; i < len(os.Args); i++ {
		switch os.Args[i] {
		case "quick", "thorough":
			tier = os.Args[i]
		case "--replay":
			if i+1 < len(os.Args) {
				replay = os.Args[i+1]
				i++
			}
		}
	}
	if t := os.Getenv("VERIF_TIER"); t == "quick" || t == "thorough" {
		tier = t
	}
	seed, _ := strconv.ParseInt(os.Getenv("VERIF_SEED"), 10, 64)
	conf, ok := props[prop]
	if !ok {
		fatal(2, "unknown property %s", prop)
	}
	start := time.Now()
	scratch := mkScratch()
	data := dataScratch()
	cleanup := func() {
		if os.Getenv("VERIF_KEEP") != "" {
			fmt.Println("kept scratch:", scratch, data)
			return
		}
		os.RemoveAll(scratch)
		os.RemoveAll(data)
	}

	if replay == "" {
		// replay files of an earlier run of this check are stale
		old, _ := filepath.Glob(filepath.Join(verifDir, "replays", prop, "*.json"))
		for _, f := range old {
			_ = os.Remove(f)
		}
	}
	flavour := conf.Flavour[tier]
	bin, stats := buildWorker(scratch, flavour)
	buildS := time.Since(start).Seconds()

	results, errs := runWorkers(bin, prop, tier, flavour, conf, scratch, data, seed, replay)

	// race reports (race flavour): every file race_<i>.<pid>
	var raceReports []string
	if flavour == "race" {
		matches, _ := filepath.Glob(filepath.Join(scratch, "race_*"))
		for _, m := range matches {
			b, _ := os.ReadFile(m)
			raceReports = append(raceReports, string(b))
		}
	}

	merged := &workerResult{Property: prop, Exhaustive: true, Outcomes: map[string]int64{}, Counters: map[string]int64{}, Bounds: map[string]string{}}
	vmap := map[string]*violation{}
	infra := append([]string{}, errs...)
	for _, r := range results {
		if r == nil {
			continue
		}
		if r.InfraError != "" {
			infra = append(infra, r.InfraError)
		}
		merged.Evaluations += r.Evaluations
		merged.Nontrivial += r.Nontrivial
		merged.States += r.States
		merged.Transitions += r.Transitions
		merged.Traces += r.Traces
		if !r.Exhaustive {
			merged.Exhaustive = false
		}
		for _, c := range r.Caps {
			found := false
			for _, x := range merged.Caps {
				if x == c {
					found = true
				}
			}
			if !found {
				merged.Caps = append(merged.Caps, c)
			}
		}
		for k, v := range r.Outcomes {
			if v > merged.Outcomes[k] {
				merged.Outcomes[k] = v
			}
		}
		for k, v := range r.Counters {
			merged.Counters[k] += v
		}
		for k, v := range r.Bounds {
			merged.Bounds[k] = v
		}
		for _, n := range r.Notes {
			if len(merged.Notes) < 40 {
				merged.Notes = append(merged.Notes, n)
			}
		}
		for _, s := range r.Samples {
			if len(merged.Samples) < 6 {
				merged.Samples = append(merged.Samples, s)
			}
		}
		for _, v := range r.Violations {
			if old, ok := vmap[v.Sig]; ok {
				old.Count += v.Count
			} else {
				vmap[v.Sig] = v
				merged.Violations = append(merged.Violations, v)
			}
		}
	}
	sort.Slice(merged.Violations, func(i, j int) bool { return merged.Violations[i].Sig < merged.Violations[j].Sig })

	if replay != "" {
		for _, n := range merged.Notes {
			fmt.Println(n)
		}
		for _, v := range merged.Violations {
			fmt.Printf("REPLAY-VIOLATION property=%s sig=%s\n  clause: %s\n  %s\n", prop, v.Sig, v.Clause, v.Detail)
		}
		for _, e := range infra {
			fmt.Println("INFRA", e)
		}
		cleanup()
		if len(infra) > 0 {
			os.Exit(2)
		}
		if len(merged.Violations) > 0 {
			os.Exit(1)
		}
		fmt.Println("replay: property held on this case")
		return
	}

	// race reports become violations of the property being checked (C14)
	for _, rep := range raceReports {
		for _, one := range splitRaceReports(rep) {
			sig := "race|" + raceSignature(one)
			if _, ok := vmap[sig]; ok {
				vmap[sig].Count++
				continue
			}
			cs, _ := json.Marshal(map[string]any{"race_report": one})
			v := &violation{Sig: sig, Clause: "no data race", Detail: firstLines(one, 40), Case: cs, Count: 1}
			vmap[sig] = v
			merged.Violations = append(merged.Violations, v)
		}
	}

	if len(infra) > 0 {
		for _, e := range infra {
			fmt.Println("INFRA", e)
		}
		// a dead worker may itself be what the property forbids (C06 totality):
		// the per-property code decides by announcing cases; here it is an
		// infrastructure error unless the property opts in.
		if !deathIsViolation[prop] || len(deaths) == 0 || len(deaths) != len(infra) {
			cleanup()
			os.Exit(2)
		}
		// for this property a dying worker is what the property forbids: the
		// case the worker had announced becomes the violation
		for _, d := range deaths {
			class := "process died"
			for _, l := range strings.Split(d.Tail, "\n") {
				l = strings.TrimSpace(l)
				if strings.HasPrefix(l, "fatal error:") || strings.HasPrefix(l, "panic:") || strings.Contains(l, "out of memory") || strings.Contains(l, "stack overflow") {
					class = l
					break
				}
			}
			if class == "process died" {
				class = d.Err
			}
			sig := "worker died|" + class
			cs := json.RawMessage(d.Current)
			if !json.Valid(cs) {
				cs, _ = json.Marshal(map[string]string{"current": d.Current})
			}
			if _, ok := vmap[sig]; ok {
				vmap[sig].Count++
				continue
			}
			v := &violation{Sig: sig, Clause: "every request returns without crashing", Detail: firstLines(d.Tail, 30), Case: cs, Count: 1}
			vmap[sig] = v
			merged.Violations = append(merged.Violations, v)
		}
		merged.Exhaustive = false
		merged.Caps = append(merged.Caps, "a worker died; its shard is incomplete")
	}

	findings := loadFindings()
	var newViolations []*violation
	known := 0
	for _, v := range merged.Violations {
		matched := false
		for _, f := range findings {
			if f.Property == prop && f.Sig == v.Sig {
				if !f.Matched {
					fmt.Printf("KNOWN-FINDING: property=%s %s [sig=%s; %d cases]\n", prop, f.Text, f.Sig, v.Count)
				}
				f.Matched = true
				matched = true
			}
		}
		if matched {
			known++
			continue
		}
		newViolations = append(newViolations, v)
	}
	for _, v := range newViolations {
		dir := filepath.Join(verifDir, "replays", prop)
		_ = os.MkdirAll(dir, 0o755)
		path := filepath.Join(dir, hashOf(v.Sig)+".json")
		b, _ := json.MarshalIndent(map[string]any{"property": prop, "sig": v.Sig, "clause": v.Clause, "detail": v.Detail, "case": v.Case, "count": v.Count, "tier": tier}, "", " ")
		_ = os.WriteFile(path, b, 0o644)
		fmt.Printf("VIOLATION property=%s replay=%s\n", prop, path)
		fmt.Printf("  sig: %s\n  clause: %s\n  %s\n", v.Sig, v.Clause, strings.ReplaceAll(v.Detail, "\n", "\n  "))
	}

	writeEvidence(prop, tier, seed, conf, merged, stats, flavour, time.Since(start).Seconds(), buildS, len(newViolations), known)

	fmt.Printf("%s %s: evaluations=%d nontrivial=%d states=%d transitions=%d exhaustive=%v violations=%d known=%d wall=%.1fs (build %.1fs)\n",
		prop, tier, merged.Evaluations, merged.Nontrivial, merged.States, merged.Transitions, merged.Exhaustive, len(newViolations), known, time.Since(start).Seconds(), buildS)
	cleanup()
	if len(newViolations) > 0 {
		os.Exit(1)
	}
}

var deathIsViolation = map[string]bool{}

func firstLines(s string, n int) string {
	lines := strings.Split(s, "\n")
	if len(lines) > n {
		lines = lines[:n]
	}
	return strings.Join(lines, "\n")
}

func splitRaceReports(s string) []string {
	var out []string
	parts := strings.Split(s, "==================")
	for _, p := range parts {
		if strings.Contains(p, "WARNING: DATA RACE") {
			out = append(out, strings.TrimSpace(p))
		}
	}
	return out
}

// raceSignature: the pair of innermost repository frames of the two accesses.
func raceSignature(rep string) string {
	var frames []string
	blocks := strings.Split(rep, "\n\n")
	for _, b := range blocks {
		lines := strings.Split(b, "\n")
		if len(lines) == 0 {
			continue
		}
		head := strings.TrimSpace(lines[0])
		if !(strings.HasPrefix(head, "Write at") || strings.HasPrefix(head, "Read at") || strings.HasPrefix(head, "Previous write at") || strings.HasPrefix(head, "Previous read at") || strings.HasPrefix(head, "WARNING: DATA RACE")) {
			continue
		}
		for _, l := range lines {
			l = strings.TrimSpace(l)
			if strings.HasPrefix(l, modPath+"/") && !strings.Contains(l, "/verifx/") && !strings.Contains(l, "/cmd/verifworker") {
				fn := l
				if i := strings.Index(fn, "("); i > 0 && !strings.HasPrefix(fn[i:], "(*") {
					fn = fn[:i]
				} else if j := strings.LastIndex(fn, "("); j > 0 {
					fn = fn[:j]
				}
				fn = strings.TrimPrefix(fn, modPath+"/")
				frames = append(frames, fn)
				break
			}
		}
	}
	sort.Strings(frames)
	return strings.Join(frames, " <-> ")
}

func warm() {
	scratch := mkScratch()
	defer os.RemoveAll(scratch)
	for _, fl := range []string{"plain", "race", "order", "tick"} {
		t := time.Now()
		buildWorker(scratch, fl)
		fmt.Printf("warmed %s build in %.1fs\n", fl, time.Since(t).Seconds())
	}
}
