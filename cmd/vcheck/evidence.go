package main

import (
	"encoding/json"
	"fmt"
	"os"
	"path/filepath"
	"time"
)

var props = map[string]propConf{}

func init() {
	mc := func(id string, f func(*propConf)) {
		c := dflt("model_checking")
		if f != nil {
			f(&c)
		}
		props[id] = c
	}
	ex := func(id string, f func(*propConf)) {
		c := dflt("exploration")
		if f != nil {
			f(&c)
		}
		props[id] = c
	}
	mc("C01", nil)
	ex("C02", nil)
	ex("C03", nil)
	ex("C04", nil)
	ex("C05", nil)
	ex("C06", func(c *propConf) {
		c.Flavour = map[string]string{"quick": "tick", "thorough": "tick"}
	})
	ex("C07", nil)
	ex("C08", nil)
	ex("C09", nil)
	ex("C10", nil)
	mc("C11", nil)
	mc("C12", nil)
	mc("C13", nil)
	mc("C14", func(c *propConf) {
		c.Flavour = map[string]string{"quick": "race", "thorough": "race"}
		c.Budget = map[string]time.Duration{"quick": 90 * time.Second, "thorough": 25 * time.Minute}
	})
	mc("C15", func(c *propConf) {
		c.Flavour = map[string]string{"quick": "order", "thorough": "order"}
	})
	ex("C16", nil)
	mc("C17", nil)
	ex("C18", nil)
	mc("C19", nil)
	ex("C20", nil)
	deathIsViolation["C06"] = true
}

func writeEvidence(prop, tier string, seed int64, conf propConf, m *workerResult, st *instrStats, flavour string, wall, buildS float64, nviol, known int) {
	cov := map[string]any{
		"evaluations":                   m.Evaluations,
		"distinct_nontrivial":           m.Nontrivial,
		"rule":                          rules[prop],
		"samples":                       m.Samples,
		"exhaustive":                    m.Exhaustive,
		"caps_hit":                      m.Caps,
		"bounds":                        m.Bounds,
		"distinct_outcomes":             m.Outcomes,
		"counters":                      m.Counters,
		"known_findings_matched":        known,
		"build_flavour":                 flavour,
		"build_seconds":                 buildS,
		"instrumentation":               map[string]any{"files_rewritten": st.Files, "sync_imports": st.SyncFiles, "go_statements": st.GoStmts, "map_ranges": st.MapRanges, "loop_ticks": st.LoopTicks, "not_owned": st.NotOwned},
		"shards":                        conf.Shards,
		"notes":                         m.Notes,
		"traces_validated_against_impl": m.Traces,
	}
	if conf.Level == "model_checking" {
		cov["states"] = m.States
		cov["transitions"] = m.Transitions
		cov["explanation"] = "every explored state/transition/schedule is an execution of the real (instrumented) implementation, so each trace is validated against the implementation by construction"
	}
	vac := false
	for _, v := range m.Outcomes {
		if v <= 1 {
			vac = true
		}
	}
	if len(m.Outcomes) > 0 {
		cov["vacuous_scenario_present"] = vac
	}
	assume := assumptions[prop]
	if assume == nil {
		assume = []string{}
	}
	ev := map[string]any{
		"property_id": prop,
		"tier":        tier,
		"seed":        seed,
		"level":       conf.Level,
		"coverage":    cov,
		"assumptions": assume,
		"wall_s":      wall,
		"violations":  nviol,
	}
	b, _ := json.MarshalIndent(ev, "", " ")
	dir := filepath.Join(verifDir, "evidence")
	_ = os.MkdirAll(dir, 0o755)
	if err := os.WriteFile(filepath.Join(dir, prop+".json"), b, 0o644); err != nil {
		fmt.Println("INFRA cannot write evidence:", err)
		os.Exit(2)
	}
}

var rules = map[string]string{
	"C06": "each evaluation is one request (or one lexer/parser run) on one input; inputs are enumerated exhaustively from the alphabets, so they are distinct; distinct_nontrivial counts the inputs (not requests) that are not valid journals of G, which is every enumerated string, fragment sequence and pumped input",
	"C15": "each evaluation is one complete scenario run on a fresh real server under one map-order plan (a deviating permutation at one dynamic range, or two in thorough); distinct plans by construction; every one is non-trivial because only ranges over >= 2 keys are deviated",
	"C19": "each evaluation is one event sequence (1..4 configuration events) applied to a fresh server, followed by the comparison of all 24 effective settings and, where enabled, eight behaviour probes; non-trivial = ill-typed, non-positive, partial, wrapped/dotted or later-in-sequence payloads",
	"C20": "each evaluation is one hover request at one position of one scenario (include tree or a graph with a file on two include paths; unsaved edits kept, discarded by closing, or arriving in two files after the hovered document was analysed) on a fresh server; distinct by construction; non-trivial = the aggregate spans at least two files",
	"C18": "each evaluation is one scenario (declaration placement, settings, root, posting set, commodity shape; opened directly, after another document was analysed - with the current file inside or outside the root journal's tree -, or reached by an edit that adds the declarations) on a fresh server; distinct parameter vectors; non-trivial = a declaration lives outside the current file or a setting is off",
	"C16": "each evaluation is one completion request (layout, configuration, typed line, cursor) on the real server; distinct by construction; non-trivial = the set of names starting with the fragment is neither empty nor the whole table (counted once per fragment, for the first configuration of its group)",
	"C09": "each evaluation is one references request (plus one rename request when declarations are included) at one cursor position of one scenario (optionally after a second analysis of the requesting document or after an unsaved edit was discarded) on a fresh server; scenarios are distinct parameter vectors; non-trivial = at least two files hold occurrences, or the request comes from a non-root file, or an open file differs from disk",
	"C17": "geometry: one evaluation = one document tokenised (full + every line-interval range request); histories: one evaluation = one BFS transition replayed on a fresh server pair; non-trivial = the document has a delimiter-carrying / single-character lexeme or a multi-unit character before a token, or the history contains a delta answered with edits",
	"C08": "each evaluation is one document (all per-document features) or one (document, cursor position) pair (eight requests), swept three times: included file closed, open with unsaved edits, and after such an edit was discarded; distinct by construction; distinct_nontrivial counts the documents whose deviation puts a multi-byte / multi-unit character or a neighbouring entry before a reported range",
	"C04": "each evaluation is one (document, configuration) pair formatted once by the real server; distinct by construction; non-trivial = the formatter returned edits that change the text",
	"C05": "each evaluation is one (document, configuration) pair formatted twice by the real server; distinct by construction; non-trivial = the first run changed the text (so the second run is checked on formatted text)",
	"C07": "each evaluation is one (journal, damaged entry, damage) triple, distinct by construction; non-trivial = the damaged text has at least one parse error",
	"C02": "each evaluation is one single-transaction document opened on the real server (parameter vectors are distinct by construction; respellings are distinct texts of the same model); non-trivial = unbalanced, or balanced only through a cost conversion, a virtual posting exclusion or an absorbed remainder",
	"C03": "each evaluation is one journal rendered from the model with a distinct set of deviations (no two from one parameter group) and parsed once; distinct_nontrivial counts distinct rendered texts with at least one deviation (measured by hashing the text)",
	"C01": "mirror part: one evaluation = didOpen + one didChange notification (1 or 2 content changes) + comparison with the reference buffer; cases are distinct parameter vectors (document, ranges, texts); non-trivial = the change is not a plain in-range ASCII edit (non-ASCII/non-BMP line, clamped position, 0:0 corner, line break) . History part: one evaluation = one BFS transition replayed on a fresh server; non-trivial = follows a cache-populating request or is a ranged diff edit",
	"C12": "each evaluation is one transition: a fresh workspace is initialised, the update history replayed with UpdateFile on the real Workspace (once reading the cached getters only at the end, once after every update) and the last update applied; non-trivial = the last update changes the file's include list; states = distinct (disk variants, index dump, graph dump) per shard",
	"C10": "each case is one include graph (adjacency matrix, optional dangling edge / depth limit / oversized file / path form) materialised on disk and loaded once; distinct by construction (the enumeration never repeats a parameter vector); non-trivial = the graph has a cycle, a second acyclic path to a file, a dangling edge or a limit in force",
	"C11": "each evaluation is one transition (history + one operation) executed by replay on a fresh real Loader (part A) or on a fresh server over two documents P and X (part B: open/close/re-analyse P, open/close/change/save X, then P analysed again and compared with a fresh server in the same final state; part C: open with the saved or another text/change/save/close on M, X, Y, where membership of X and Y in the tree depends on the current texts, Q and M asked and compared with a fresh server and with a model of the tree); non-trivial = the last operation is a load that meets a non-empty cache; states are distinct (disk variants, cache contents, limits)",
	"C14": "every scenario is explored completely at the quick tier's bound; the thorough tier then explores each scenario again at its deeper bound inside an equal share of the remaining time budget (capped scenarios are listed under caps_hit and marked in bounds). Every schedule within the preemption bound is one race-detected execution of the real server; non-trivial = at least one preemption was taken; distinct = distinct choice sequences (the DFS never repeats one)",
	"C13": "every scenario is explored completely at the quick tier's bound; the thorough tier then explores each scenario again at its deeper bound inside an equal share of the remaining time budget (capped scenarios are listed under caps_hit and marked in bounds). Every schedule of the burst scenario within the preemption bound is one execution of the real server under the controlled scheduler; an execution is non-trivial when at least two PublishDiagnostics calls happened so that the schedule decided which one is last; distinct = distinct choice sequences (DFS never repeats one)",
}

var assumptions = map[string][]string{
	"C06": {"every character class the code distinguishes has a representative in the alphabet (taken from the comparisons against byte/rune constants in lexer.go, parser.go, completion.go, folding.go, inline_completion.go)", "worker death and the watchdog are attributed to the announced case"},
	"C15": {"nondeterminism other than map order and goroutine order does not exist in the code (no rand, no pointer-keyed maps, no %p); the three clock-derived date completion items are avoided by the scenarios"},
	"C19": {"the client answers workspace/configuration with its current settings", "configuration refreshes run to completion at spawn (inline schedule); their interleavings are C14's business"},
	"C20": {"the hover markdown layout (**Balance:** lines '- <decimal> <commodity>', **Postings:** n, **Transactions:** n, **Usage:** n, **Amount:**, **Unit/Total cost:**) is parsed back; a change of layout is reported as missing figures"},
	"C18": {"visibility = own file + include tree + workspace files when a root exists (also for a document the root journal does not include)", "background analysis completed before reading the diagnostics (inline schedule)"},
	"C16": {"'starts with' and 'matches' are case-insensitive, as the implementation's own matcher is"},
	"C09": {"all documents are opened and their background analysis completed before the request (inline schedule)"},
	"C17": {"the client applies SemanticTokensDelta edits to the array of its current result id only", "the rendered position map is the ground truth for lexeme extents"},
	"C08": {"the rendered text's position map is the ground truth (nothing is parsed by the oracle)", "cursor positions 0..length of each line; positions inside a surrogate pair are not sent"},
	"C04": {"the project's parser is the judge of meaning on re-parse (faithful on G by C03)", "undeclared-* diagnostics off so that format directives do not add diagnostics"},
	"C05": {"columns are counted in characters (runes), as the property states"},
	"C07": {"the undamaged journal parses silently (checked; C03)", "undeclared-account/commodity diagnostics switched off so that damaging a declaration cannot legitimately change other entries' diagnostics"},
	"C02": {"balanced-virtual postings are pooled with ordinary ones, as the property states", "numbers with exactly one mark followed by exactly three digits are outside G"},
	"C03": {"grammar G as fixed in DESIGN.md §4.2 (numbers with exactly one mark followed by exactly three digits are excluded as contested)"},
	"C01": {"clients never name a position strictly inside a surrogate pair or between CR and LF", "background diagnostics run to completion at spawn (inline schedule); schedules are C13/C14's business"},
	"C12": {"every update writes the new content to disk and passes the same content to UpdateFile (what didSave does)", "payee templates / commodity formats may depend on file order when member files disagree (the rebuild itself ranges over a map)"},
	"C10": {"files are regular files in one directory tree on tmpfs; HOME points into the scratch tree"},
	"C11": {"a file is only changed on disk together with InvalidateFile (as didChange/didSave do)", "part B: the fresh reference server reaches the final state along the shortest way (open with the saved text, one change to the editor text)"},
	"C14": {"after a drain with nothing spawned since, only the response of the sequential run is accepted; text of an unsaved edit that was discarded by closing its file may show in no later response", "a message handler that waits for a write lock whose owner is inside a call to the client is reported as blocked (the scheduler records lock owners and client calls)", "pulls of the queued-configuration scenario are answered in request order (k-th pull, k-th payload)", "race-invisible cooperative hand-off (plain word, //go:norace, GOMAXPROCS=1): the race detector sees only the synchronisation of the production code", "responses are compared with sequential executions in which background computations are finished or pending (never reordered); configuration refreshes may be pending at request time, superseded document analyses may not be used"},
	"C13": {"the included file of the save scenarios is rewritten on disk at the start of every execution (the disk is part of the explored state)", "scheduling points at sync.Map / RWMutex operations, goroutine start/end and client calls are sufficient (unsynchronised accesses are C14's business)", "jsonrpc2 handles messages serially (no AsyncHandler installed in main.go)"},
}
