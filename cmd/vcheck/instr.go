package main

// Overlay generator (DESIGN §3.1). Reads the current working tree of /repo and
// writes rewritten copies of its non-test Go files plus the harness packages
// into a scratch directory, together with an overlay.json for `go build
// -overlay`. /repo itself is never touched.

import (
	"bytes"
	"encoding/json"
	"fmt"
	"go/ast"
	"go/importer"
	"go/parser"
	"go/token"
	"go/types"
	"io"
	"os"
	"os/exec"
	"path/filepath"
	"sort"
	"strings"
)

const modPath = "github.com/juev/hledger-lsp"

type edit struct {
	pos, end int // byte offsets; replace [pos,end) with text
	text     string
}

type instrStats struct {
	Files      int
	SyncFiles  int
	GoStmts    int
	MapRanges  int
	LoopTicks  int
	NotOwned   []string
	RangeSites []string
}

var builtinFuncs = map[string]bool{"close": true, "delete": true, "panic": true, "print": true, "println": true, "clear": true}

func applyEdits(src []byte, edits []edit) []byte {
	sort.SliceStable(edits, func(i, j int) bool { return edits[i].pos < edits[j].pos })
	var out bytes.Buffer
	last := 0
	for _, e := range edits {
		if e.pos < last {
			continue // overlapping (nested go statements etc.): keep the outer one
		}
		out.Write(src[last:e.pos])
		out.WriteString(e.text)
		last = e.end
	}
	out.Write(src[last:])
	return out.Bytes()
}

// generateOverlay writes the overlay for the given flavour and returns the
// path of overlay.json.
func generateOverlay(repo, verif, scratch, flavour string) (string, *instrStats, error) {
	stats := &instrStats{}
	ovDir := filepath.Join(scratch, "ov")
	replace := map[string]string{}

	var goFiles []string
	for _, root := range []string{"internal", "cmd"} {
		err := filepath.Walk(filepath.Join(repo, root), func(p string, info os.FileInfo, err error) error {
			if err != nil {
				return err
			}
			if info.IsDir() {
				if info.Name() == "verifx" || info.Name() == "verifworker" || info.Name() == "testdata" {
					return filepath.SkipDir
				}
				return nil
			}
			if strings.HasSuffix(p, ".go") && !strings.HasSuffix(p, "_test.go") {
				goFiles = append(goFiles, p)
			}
			return nil
		})
		if err != nil {
			return "", nil, err
		}
	}
	sort.Strings(goFiles)

	fset := token.NewFileSet()
	parsed := map[string]*ast.File{}
	srcs := map[string][]byte{}
	byDir := map[string][]string{}
	for _, p := range goFiles {
		src, err := os.ReadFile(p)
		if err != nil {
			return "", nil, err
		}
		f, err := parser.ParseFile(fset, p, src, parser.ParseComments|parser.SkipObjectResolution)
		if err != nil {
			return "", nil, fmt.Errorf("parse %s: %w", p, err)
		}
		parsed[p] = f
		srcs[p] = src
		byDir[filepath.Dir(p)] = append(byDir[filepath.Dir(p)], p)
	}

	// type information for the map-range rewrite (order flavour only)
	mapRanges := map[*ast.RangeStmt]bool{}
	if flavour == "order" {
		// type information from export data of the already built packages
		// (go list -export), so that every range operand has a type
		exports := map[string]string{}
		cmd := exec.Command("go", "list", "-export", "-deps", "-json=ImportPath,Export", "./...")
		cmd.Dir = repo
		cmd.Env = goEnv()
		out, err := cmd.Output()
		if err != nil {
			return "", nil, fmt.Errorf("go list -export: %w", err)
		}
		dec := json.NewDecoder(bytes.NewReader(out))
		for dec.More() {
			var p struct{ ImportPath, Export string }
			if err := dec.Decode(&p); err != nil {
				break
			}
			if p.Export != "" {
				exports[p.ImportPath] = p.Export
			}
		}
		imp := importer.ForCompiler(fset, "gc", func(path string) (io.ReadCloser, error) {
			f, ok := exports[path]
			if !ok {
				return nil, fmt.Errorf("no export data for %s", path)
			}
			return os.Open(f)
		})
		var dirs []string
		for dir := range byDir {
			dirs = append(dirs, dir)
		}
		sort.Strings(dirs)
		for _, dir := range dirs {
			files := byDir[dir]
			hasRange := false
			var afs []*ast.File
			for _, p := range files {
				afs = append(afs, parsed[p])
				ast.Inspect(parsed[p], func(n ast.Node) bool {
					if _, ok := n.(*ast.RangeStmt); ok {
						hasRange = true
					}
					return true
				})
			}
			if !hasRange {
				continue
			}
			info := &types.Info{Types: map[ast.Expr]types.TypeAndValue{}}
			nerr := 0
			conf := types.Config{Importer: imp, Error: func(e error) {
				nerr++
				if nerr <= 2 {
					stats.NotOwned = append(stats.NotOwned, "type error: "+e.Error())
				}
			}}
			rel, _ := filepath.Rel(repo, dir)
			_, _ = conf.Check(modPath+"/"+filepath.ToSlash(rel), fset, afs, info)
			for _, p := range files {
				ast.Inspect(parsed[p], func(n ast.Node) bool {
					rs, ok := n.(*ast.RangeStmt)
					if !ok {
						return true
					}
					tv, ok := info.Types[rs.X]
					if !ok || tv.Type == nil {
						stats.NotOwned = append(stats.NotOwned, relTo(repo, fset.Position(rs.Pos()).String())+" (no type)")
						return true
					}
					if _, isMap := tv.Type.Underlying().(*types.Map); isMap {
						mapRanges[rs] = true
					}
					return true
				})
			}
		}
	}

	for _, p := range goFiles {
		f := parsed[p]
		src := srcs[p]
		var edits []edit
		off := func(pos token.Pos) int { return fset.Position(pos).Offset }

		needGoImport := false
		needOrderImport := false
		needTickImport := false

		// 1. import "sync" -> shim (keeps the local name `sync`)
		for _, im := range f.Imports {
			path := strings.Trim(im.Path.Value, "\"`")
			if path == "sync" {
				name := "sync"
				if im.Name != nil {
					name = im.Name.Name
				}
				edits = append(edits, edit{off(im.Pos()), off(im.End()), name + ` "` + modPath + `/internal/verifx/vsync"`})
				stats.SyncFiles++
			}
			if path == "sync/atomic" {
				name := "atomic"
				if im.Name != nil {
					name = im.Name.Name
				}
				edits = append(edits, edit{off(im.Pos()), off(im.End()), name + ` "` + modPath + `/internal/verifx/vatomic"`})
				stats.SyncFiles++
			}
		}

		ast.Inspect(f, func(n ast.Node) bool {
			switch st := n.(type) {
			case *ast.GoStmt:
				// 2. go f(a, b) -> { vf, v0, v1 := f, a, b; vsyncgo.Go(func() { vf(v0, v1) }) }
				call := st.Call
				txt := func(e ast.Node) string { return string(src[off(e.Pos()):off(e.End())]) }
				var b strings.Builder
				if id, ok := call.Fun.(*ast.Ident); ok && builtinFuncs[id.Name] {
					b.WriteString("vsyncgo.Go(func() { " + txt(call) + " })")
				} else {
					names := []string{"vgf"}
					vals := []string{txt(call.Fun)}
					for i, a := range call.Args {
						names = append(names, fmt.Sprintf("vga%d", i))
						vals = append(vals, txt(a))
					}
					b.WriteString("{ " + strings.Join(names, ", ") + " := " + strings.Join(vals, ", ") + "; vsyncgo.Go(func() { vgf(")
					for i := range call.Args {
						if i > 0 {
							b.WriteString(", ")
						}
						b.WriteString(fmt.Sprintf("vga%d", i))
						if i == len(call.Args)-1 && call.Ellipsis.IsValid() {
							b.WriteString("...")
						}
					}
					b.WriteString(") }) }")
				}
				edits = append(edits, edit{off(st.Pos()), off(st.End()), b.String()})
				needGoImport = true
				stats.GoStmts++
				return false
			case *ast.RangeStmt:
				if flavour == "order" && mapRanges[st] {
					edits = append(edits, edit{off(st.X.Pos()), off(st.X.Pos()), "vorderx.Map("})
					edits = append(edits, edit{off(st.X.End()), off(st.X.End()), ")"})
					needOrderImport = true
					stats.MapRanges++
					stats.RangeSites = append(stats.RangeSites, relTo(repo, fset.Position(st.Pos()).String()))
				}
				if flavour == "tick" {
					edits = append(edits, edit{off(st.Body.Lbrace) + 1, off(st.Body.Lbrace) + 1, " vtickx.T();"})
					needTickImport = true
					stats.LoopTicks++
				}
			case *ast.ForStmt:
				if flavour == "tick" {
					edits = append(edits, edit{off(st.Body.Lbrace) + 1, off(st.Body.Lbrace) + 1, " vtickx.T();"})
					needTickImport = true
					stats.LoopTicks++
				}
			}
			return true
		})

		extra := ""
		if needGoImport {
			extra += `; import vsyncgo "` + modPath + `/internal/verifx/vsync"`
		}
		if needOrderImport {
			extra += `; import vorderx "` + modPath + `/internal/verifx/vorder"`
		}
		if needTickImport {
			extra += `; import vtickx "` + modPath + `/internal/verifx/vtick"`
		}
		if extra != "" {
			e := off(f.Name.End())
			edits = append(edits, edit{e, e, extra})
		}

		isMain := filepath.Dir(p) == filepath.Join(repo, "cmd", "hledger-lsp")
		if isMain {
			// the dispatcher is linked into the worker with main renamed
			for _, d := range f.Decls {
				if fd, ok := d.(*ast.FuncDecl); ok && fd.Recv == nil && fd.Name.Name == "main" {
					edits = append(edits, edit{off(fd.Name.Pos()), off(fd.Name.End()), "verifxOrigMain"})
				}
			}
		}
		if len(edits) == 0 && !isMain {
			continue
		}
		out := applyEdits(src, edits)
		rel, _ := filepath.Rel(repo, p)
		dst := filepath.Join(ovDir, rel)
		if err := os.MkdirAll(filepath.Dir(dst), 0o755); err != nil {
			return "", nil, err
		}
		if err := os.WriteFile(dst, out, 0o644); err != nil {
			return "", nil, err
		}
		if isMain {
			replace[filepath.Join(repo, "cmd", "verifworker", "orig_"+filepath.Base(p))] = dst
		} else {
			replace[p] = dst
		}
		stats.Files++
	}

	// harness packages
	hdir := filepath.Join(verif, "harness")
	entries, err := os.ReadDir(hdir)
	if err != nil {
		return "", nil, err
	}
	for _, ent := range entries {
		if !ent.IsDir() {
			continue
		}
		name := ent.Name()
		switch name {
		case "accessors":
			pkgs, _ := os.ReadDir(filepath.Join(hdir, name))
			for _, pk := range pkgs {
				files, _ := os.ReadDir(filepath.Join(hdir, name, pk.Name()))
				for _, fl := range files {
					if strings.HasSuffix(fl.Name(), ".go") {
						replace[filepath.Join(repo, "internal", pk.Name(), fl.Name())] = filepath.Join(hdir, name, pk.Name(), fl.Name())
					}
				}
			}
		case "worker":
			files, _ := os.ReadDir(filepath.Join(hdir, name))
			for _, fl := range files {
				if strings.HasSuffix(fl.Name(), ".go") {
					replace[filepath.Join(repo, "cmd", "verifworker", fl.Name())] = filepath.Join(hdir, name, fl.Name())
				}
			}
		default:
			files, _ := os.ReadDir(filepath.Join(hdir, name))
			for _, fl := range files {
				if strings.HasSuffix(fl.Name(), ".go") && !strings.HasSuffix(fl.Name(), "_test.go") {
					replace[filepath.Join(repo, "internal", "verifx", name, fl.Name())] = filepath.Join(hdir, name, fl.Name())
				}
			}
		}
	}

	ov := map[string]any{"Replace": replace}
	b, _ := json.MarshalIndent(ov, "", " ")
	ovPath := filepath.Join(scratch, "overlay.json")
	if err := os.MkdirAll(scratch, 0o755); err != nil {
		return "", nil, err
	}
	if err := os.WriteFile(ovPath, b, 0o644); err != nil {
		return "", nil, err
	}
	return ovPath, stats, nil
}

func relTo(base, s string) string {
	if strings.HasPrefix(s, base+"/") {
		return s[len(base)+1:]
	}
	return s
}
